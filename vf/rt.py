"""Per-path runtime shared by all harnesses.

A harness is a plain Python function of small integer/bool parameters.  It returns an
``Outcome``; ``run`` turns that into the boolean that the generated CrossHair wrapper's
postcondition checks, and keeps the per-obligation accounting (paths executed, distinct
non-trivial event traces, known findings met, failure details).
"""
import json
import os
import hashlib
from typing import NamedTuple, Optional

from . import VERIF_ROOT


class Outcome(NamedTuple):
    sig: Optional[str]          # None = oracle satisfied; else failure signature (concrete str)
    interesting: bool = True    # the event the harness is about really happened on this path
    detail: str = ""            # free text for the replay report


class HarnessError(Exception):
    """The harness itself is broken (never a property violation)."""


_KNOWN = None


def known_findings():
    global _KNOWN
    if _KNOWN is None:
        path = os.path.join(VERIF_ROOT, "known_findings.json")
        try:
            with open(path) as f:
                data = json.load(f)
        except FileNotFoundError:
            data = {"findings": []}
        _KNOWN = {}
        for ent in data.get("findings", []):
            _KNOWN.setdefault(ent["property"], {})[ent["signature"]] = ent
    return _KNOWN


class Acct:
    def __init__(self):
        self.reset()

    def reset(self):
        self.paths = 0
        self.interesting_paths = 0
        self.trace_hashes = set()
        self.known_hits = {}
        self.failure = None
        self.sample_traces = []


ACCT = Acct()
_TRACE = []
_IGNORE_KNOWN = bool(os.environ.get("VERIF_IGNORE_KNOWN"))


def ev(*labels):
    """Record a coarse event label on the current path's trace (concrete strings/ints only)."""
    for label in labels:
        if type(label) in (str, int, bool) or label is None:
            _TRACE.append(label)
        else:
            _TRACE.append("<sym>")


def trace():
    return list(_TRACE)


def _realize(v):
    try:
        from crosshair.core import deep_realize
        from crosshair.tracers import NoTracing
        return deep_realize(v)
    except Exception:
        return v


def run(prop, harness, kwargs, mode):
    """Execute one path of a harness.  mode: 'prop' | 'twin' | 'concrete'."""
    del _TRACE[:]
    out = harness(**kwargs)
    if not isinstance(out, Outcome):
        raise HarnessError("harness %r did not return an Outcome" % (harness,))
    sig = out.sig
    if sig is not None and type(sig) is not str:
        raise HarnessError("non-concrete signature")
    ACCT.paths += 1
    interesting = bool(out.interesting)
    tr = tuple(x for x in _TRACE)
    if interesting:
        ACCT.interesting_paths += 1
        h = hashlib.sha1(repr(tr).encode()).hexdigest()[:16]
        if h not in ACCT.trace_hashes:
            ACCT.trace_hashes.add(h)
            if len(ACCT.sample_traces) < 3:
                ACCT.sample_traces.append(list(tr))
    if mode == "twin":
        return not interesting
    if sig is None:
        return True
    known = known_findings().get(prop, {})
    if sig in known and not _IGNORE_KNOWN:
        ACCT.known_hits[sig] = ACCT.known_hits.get(sig, 0) + 1
        return True
    if mode == "concrete":
        ACCT.failure = {"signature": sig, "detail": out.detail, "trace": list(tr)}
        return False
    # symbolic run: realise the arguments of this failing path for the replay
    try:
        args = {k: _realize(v) for k, v in kwargs.items()}
        args = {k: (int(v) if not isinstance(v, bool) else v) for k, v in args.items()}
    except Exception:
        args = None
    try:
        detail = str(_realize(out.detail))
    except Exception:
        detail = "<unrealisable>"
    ACCT.failure = {"signature": sig, "detail": detail, "trace": list(tr), "args": args}
    return False


def choose(var, n):
    """Lazy choice in range(n) driven by symbolic int ``var``; out-of-range means option 0.

    Forks only as many ways as there are options actually on offer at this point.
    """
    if n <= 1:
        return 0
    for i in range(1, n):
        if sym_eq(var, i):
            return i
    return 0


class Sched:
    """A fixed-arity vector of symbolic ints consumed lazily; exhausted entries mean option 0."""

    def __init__(self, entries):
        self.entries = list(entries)
        self.pos = 0

    def pick(self, n):
        if n <= 1:
            return 0
        if self.pos >= len(self.entries):
            return 0
        v = self.entries[self.pos]
        self.pos += 1
        return choose(v, n)

    def used(self):
        return self.pos


class _Null:
    def __enter__(self):
        return self

    def __exit__(self, *a):
        return False


_SUSPENDED = [0]


class _NoTrace:
    def __init__(self, inner):
        self.inner = inner

    def __enter__(self):
        _SUSPENDED[0] += 1
        return self.inner.__enter__()

    def __exit__(self, *a):
        _SUSPENDED[0] -= 1
        return self.inner.__exit__(*a)


def notrace():
    """Suspend CrossHair's opcode tracing for harness code that only moves concrete values around.

    Symbolic integers must then only be touched through sym_eq()/choose()/Sched.pick(), which resume
    tracing for the comparison itself.  Outside CrossHair (concrete replay) this is a no-op."""
    try:
        from crosshair.tracers import NoTracing, is_tracing
        if is_tracing():
            return _NoTrace(NoTracing())
    except Exception:
        pass
    return _Null()


def sym_eq(var, i):
    """``var == i`` decided by the solver (forks the path) even while tracing is suspended."""
    if type(var) is int or type(var) is bool:
        return var == i
    if _SUSPENDED[0]:
        from crosshair.tracers import ResumedTracing
        with ResumedTracing():
            return bool(var == i)
    return bool(var == i)


def sym_lt(var, i):
    if type(var) is int or type(var) is bool:
        return var < i
    if _SUSPENDED[0]:
        from crosshair.tracers import ResumedTracing
        with ResumedTracing():
            return bool(var < i)
    return bool(var < i)


def conc(v, n):
    """Concretise a symbolic int in range(n) by branching (binary search: log2(n) solver decisions)."""
    lo, hi = 0, n - 1
    if hi <= 0:
        return 0
    if type(v) is int or type(v) is bool:
        return v if 0 <= v <= hi else 0
    if sym_lt(v, 0) or not sym_lt(v, n):
        return 0
    while lo < hi:
        mid = (lo + hi + 1) // 2
        if sym_lt(v, mid):
            hi = mid - 1
        else:
            lo = mid
    return lo


def is_sym(v):
    return type(v).__module__.startswith("crosshair")


def sym_same(a, b):
    """a == b where either side may be a symbolic integer (decided by the solver)."""
    if not (is_sym(a) or is_sym(b)):
        return type(a) is type(b) and a == b
    if isinstance(a, (str, bytes, list, tuple, dict)) or isinstance(b, (str, bytes, list, tuple, dict)) or a is None or b is None:
        return False
    if _SUSPENDED[0]:
        from crosshair.tracers import ResumedTracing
        with ResumedTracing():
            return bool(a == b)
    return bool(a == b)
