"""C10 — message framing survives any segmentation and detects any truncation.

Tier A (CrossHair): the real send_msg writes messages into a capture socket, the real recv_msg
reads them back from a scripted socket whose segment sizes, truncation offset and FIN/RST ending
are symbolic.  Tier B (vf/ast2smt.py): recv_msg is translated from its AST into z3 terms; message
lengths range over all 32-bit values and segment sizes over all positive integers.
"""
import struct
from collections import OrderedDict

import pyworkers.remote as remote
from pyworkers.remote import send_msg, recv_msg, ConnectionClosedError

from .. import vos, rt
from ..rt import Outcome, ev, Sched
from ..xh import Harness
from ..main import PropSpec

MSG_SETS = [
    [None],
    [(1, "ab")],
    [None, True],
    [True, (1, "ab")],
    [(1, "ab"), None, [1, 2, 3]],
]


def _stream(msgs):
    cap = vos.FakeSock()
    for m in msgs:
        send_msg(cap, m)
    return bytes(cap.out)


def _bounds(stream):
    b = [0]
    pos = 0
    while pos < len(stream):
        (n,) = struct.unpack("!I", stream[pos:pos + 4])
        pos += 4 + n
        b.append(pos)
    return b


TOTALS = [len(_stream(m)) for m in MSG_SETS]


from ..rt import conc as _conc, notrace


def h_frame(mset, t, rst, c0, c1, c2, c3, c4, c5):
    with notrace():     # segment sizes are chosen through Sched.pick(); the bytes themselves are concrete
        return _h_frame(mset, t, rst, c0, c1, c2, c3, c4, c5)


def _h_frame(mset, t, rst, c0, c1, c2, c3, c4, c5):
    vos.reset()
    mset = _conc(mset, len(MSG_SETS))
    msgs = MSG_SETS[mset]
    stream = _stream(msgs)
    total = len(stream)
    t = _conc(t, total + 1)
    rst = _conc(rst, 2)
    bounds = _bounds(stream)
    ev("frame", mset, t, rst)
    sock = vos.FakeSock(stream[:t], end=("rst" if rst else "fin"), cuts=Sched([c0, c1, c2, c3, c4, c5]), name="data")
    interesting = sock.cuts is not None
    for j, m in enumerate(msgs):
        complete = t >= bounds[j + 1]
        try:
            got = recv_msg(sock, comment="c10")
        except ConnectionClosedError:
            if complete:
                return Outcome("c10.frame.closed-error-on-complete-message", True)
            return Outcome(None, True)          # truncation detected; stream is over
        except vos.Hang:
            rec = vos.hang_record()
            return Outcome("c10.frame.no-progress-on-truncated-stream" if not complete else "c10.frame.no-progress-on-complete-stream", True, str(rec))
        except Exception as e:  # noqa
            if complete:
                return Outcome("c10.frame.%s-on-complete-message" % type(e).__name__, True)
            return Outcome("c10.frame.%s-instead-of-ConnectionClosedError" % type(e).__name__, True)
        if not complete:
            return Outcome("c10.frame.returned-message-from-truncated-stream", True)
        if got != m or type(got) is not type(m):
            return Outcome("c10.frame.wrong-message", True)
        if sock.pos != bounds[j + 1]:
            return Outcome("c10.frame.stream-position-off", True)
    return Outcome(None, True)


# ---------------------------------------------------------------------------------------------
# send side: framing of what send_msg writes, and its error mapping
def h_send(mset, gone):
    with notrace():
        return _h_send(mset, gone)


def _h_send(mset, gone):
    vos.reset()
    mset = _conc(mset, len(MSG_SETS))
    gone = _conc(gone, 2)
    msgs = MSG_SETS[mset]
    cap = vos.FakeSock(peer_gone=bool(gone))
    ev("send", mset, gone)
    for m in msgs:
        try:
            send_msg(cap, m)
        except ConnectionClosedError:
            if not gone:
                return Outcome("c10.send.closed-error-on-healthy-socket", True)
            return Outcome(None, True)
        except Exception as e:  # noqa
            return Outcome("c10.send.%s-escapes" % type(e).__name__, True)
        if gone:
            return Outcome("c10.send.no-error-on-dead-peer", True)
    import pyworkers.remote_pickle as rp
    bodies = vos.frames(bytes(cap.out))
    if len(bodies) != len(msgs):
        return Outcome("c10.send.frame-count", True)
    for b, m in zip(bodies, msgs):
        if rp.loads(b) != m:
            return Outcome("c10.send.frame-body", True)
    if sum(4 + len(b) for b in bodies) != len(cap.out):
        return Outcome("c10.send.trailing-bytes", True)
    return Outcome(None, True)


_FUNCS = ["pyworkers.remote:recv_msg", "pyworkers.remote:send_msg"]

_params = OrderedDict([("mset", (0, len(MSG_SETS) - 1)), ("t", (0, max(TOTALS))), ("rst", (0, 1))] +
                      [("c%d" % i, (0, 3)) for i in range(6)])


def _filter(fixed):
    return fixed["t"] <= TOTALS[fixed["mset"]]


H_FRAME = Harness(
    "frame", "vf.props.c10:h_frame", _params,
    tiers={
        # quick: single messages and a two-message stream; cut options {all, 1, 2} for the first 4 reads
        "quick": {"ranges": {"mset": (0, 2), "c0": (0, 2), "c1": (0, 2), "c2": (0, 2), "c3": (0, 2)}, "fixed": {"c4": 0, "c5": 0},
                  "partition": ["mset", "t"], "filter": _filter, "timeout": 200, "twin_fixed": {"mset": 1, "t": 10}},
        "thorough": {"fixed": {"c5": 0}, "ranges": {"c4": (0, 1)}, "partition": ["mset", "t", "rst"], "filter": _filter, "timeout": 1500,
                     "twin_fixed": {"mset": 1, "t": 10, "rst": 0}},
    },
    functions=_FUNCS,
)

H_SEND = Harness(
    "send", "vf.props.c10:h_send", OrderedDict([("mset", (0, len(MSG_SETS) - 1)), ("gone", (0, 1))]),
    tiers={"quick": {"partition": ["gone"], "timeout": 60, "twin_fixed": {"gone": 0}}},
    functions=_FUNCS,
)


def custom(tier):
    from .. import ast2smt
    return ast2smt.c10_obligations(tier)


def real_replay(harness, args, failure):
    if harness != "frame":
        return None, "no real-OS replay for this harness"
    from ..realsock import replay_frame
    return replay_frame(MSG_SETS[args["mset"]], args["t"], bool(args["rst"]), [args["c%d" % i] for i in range(6)], failure["signature"])


SPEC = PropSpec(
    "C10", [H_FRAME, H_SEND],
    assumptions=[
        "Tier A: streams are what the real send_msg wrote for 1-3 small messages; recv(n) returns 1..min(n, 3) bytes or all available/asked "
        "for the first 4 (quick) / 6 (thorough) reads, then as much as asked; the stream is cut at every offset; the ending is FIN or RST",
        "a recv() that returns b'' three times in a row with no other socket call in between is recorded as no progress (the function is "
        "deterministic and its loop state does not change on an empty read)",
        "Tier B: see ast2smt bounds; message bodies are opaque byte ranges",
    ],
    outside=["more than K segments per message (K = 6 quick / 12 thorough in Tier B)", "content of unpickling in Tier B", "zero-length bodies (send_msg never produces them)"],
    stubs=["vos.FakeSock"],
    custom=custom,
    real_replay=real_replay,
    technique="CrossHair/z3 symbolic execution of recv_msg/send_msg over scripted sockets + AST-to-SMT encoding of recv_msg decided by z3 and cvc5",
)
