"""C03 — graceful terminate interrupts the target wherever it is and is reported as such.

Same simulation scenario as C01 with fault = graceful terminate landing at the child's k-th
injection point; the oracle is phase-aware (before the target, inside it, after it finished).
The whole delivery chain is real code: ThreadWorker.terminate -> foreign_raise; ProcessWorker
.terminate -> control pipe -> _ctrl_fn -> foreign_raise; RemoteWorker.terminate -> control socket ->
_ctrl_fn_remote -> server-side terminate -> control pipe -> _ctrl_fn_local -> foreign_raise.
"""
from collections import OrderedDict

from .. import wsim, targets as T, vos
from ..vos import Hang
from ..rt import Outcome, ev, notrace, conc
from ..xh import Harness
from ..main import PropSpec
from . import wscen
from .c01 import ENDINGS, ending_name, transferable, KMAX, _FUNCS
from pyworkers.worker import WorkerTerminatedError


def own_outcome_ok(kind, e, he, res, err):
    """Is (he, res, err) the target's own outcome?"""
    ending, idx = ENDINGS[e]
    pers = wsim.is_persistent(kind)
    if not transferable(e) and not wsim.is_thread_kind(kind) and he is True and res is None and err is None:
        return True         # a value/exception that cannot be transferred is reported as "failed, no error object"
    if ending == 0:
        if he is not False or err is not None:
            return False
        if pers:
            return res in (0, 1)
        want = T.VALUES[idx][1]()
        return wsim.exc_same(res, want) if isinstance(want, BaseException) else (res == want and type(res) is type(want))
    if he is not True or res is not None:
        return False
    if err is None:
        return (not transferable(e)) or ending in (2, 3)
    if ending == 1:
        return wsim.exc_same(err, T.EXCS[idx][1]())
    return isinstance(err, KeyboardInterrupt if ending == 2 else SystemExit)


def judge(rec, kind, e):
    if rec.get("ctor") != "ok":
        return None, False
    if "hang" in rec:
        return "c03.terminate-or-wait-blocks-forever", True
    if rec.get("self_killed"):
        return "c03.parent-killed-itself", True
    if "api_exc" in rec:
        return "c03.terminate-raises-%s" % type(rec["api_exc"]).__name__, True
    landed = rec.get("landed")
    marks0 = rec.get("marks_at_landing") or []
    if rec.get("stalled"):
        phase = "blocked-waiting-for-input"     # persistent child idle in its input wait when terminate() is called
    elif not landed:
        phase = "finished"
    elif rec.get("released_early"):
        phase = "unknown"                       # the hold was lifted before the parent could call terminate()
    elif "enter" not in marks0:
        phase = "before-target"
    elif "exit" not in marks0:
        phase = "in-target"
    else:
        phase = "after-target"
    if rec.get("term") is not True:
        return "c03.terminate-returns-%r|%s" % (rec.get("term"), phase), True
    if not rec.get("dead") or rec.get("obs1_err") or rec.get("obs1") is None:
        return "c03.not-dead-or-unreadable-after-terminate|%s" % phase, True
    alive, he, res, err = rec["obs1"]
    is_wte = he is True and res is None and isinstance(err, WorkerTerminatedError)
    unreported = he is True and res is None and err is None
    own = own_outcome_ok(kind, e, he, res, err)
    marks = rec.get("marks") or []
    if phase == "in-target":
        if not is_wte:
            return "c03.interrupted-target-not-reported-as-terminated|%s" % phase, True
        if "exit" not in marks or (rec.get("label") == "target:in-try" and "finally" not in marks):
            return "c03.target-finally-blocks-did-not-run", True
        if "return" in marks or "raise" in marks:
            return "c03.target-ran-to-its-end-despite-terminate", True
        return None, True
    if phase == "before-target":
        if not (is_wte or unreported):
            return "c03.outcome-not-terminated|%s" % phase, True
        if "return" in marks or "raise" in marks:
            return "c03.target-ran-to-its-end-despite-terminate", True
        return None, True
    if phase == "blocked-waiting-for-input":
        # nothing is running: the item enqueued earlier has been answered; the loop is interrupted in its wait
        if not (is_wte or own):
            return "c03.idle-persistent-worker-not-reported-as-terminated", True
        return None, True
    if phase in ("after-target", "unknown"):
        if not (own or is_wte or unreported):
            return "c03.outcome-neither-own-nor-terminated|%s" % phase, True
        if phase == "after-target" and unreported and not own:
            # the target had finished on its own, yet its outcome is gone: "nothing else is possible" read strictly.
            # The signature names where the exception landed, so that the inherent windows that are recorded as
            # findings (landing inside the very code that reports the outcome) never cover a new one.
            fn = (rec.get("label") or "?").split(":")[0]
            how = "returned" if ENDINGS[e][0] == 0 else "raised"
            return "c03.own-outcome-lost-after-target|target-%s|landing@%s" % (how, fn), True
        return None, True
    # the work had ended on its own before the landing point was reached
    if not own:
        return "c03.own-outcome-changed-by-late-terminate", True
    return None, False


def make_h(kind):
    def h(e, k):
        with notrace():
            e_ = conc(e, len(ENDINGS))
            k_ = conc(k, KMAX[kind] + 1)
            ev("c03", wsim.KIND_NAMES[kind], ending_name(e_), k_)
            rec = wscen.scenario(kind, ENDINGS[e_][0], ENDINGS[e_][1], 1, k_)
            if rec["sim_errors"]:
                raise RuntimeError("simulation kernel errors: %r" % (rec["sim_errors"],))
            ev(str(rec.get("label")))
            sig, interesting = judge(rec, kind, e_)
            if sig is not None:
                sig = "%s|%s" % (sig, wsim.KIND_NAMES[kind])
            detail = "label=%s obs=%r term=%r marks@landing=%r marks=%r hang=%r" % (rec.get("label"), rec.get("obs1"), rec.get("term"),
                                                                               rec.get("marks_at_landing"), rec.get("marks"), rec.get("hang"))
            return Outcome(sig, interesting, detail)
    h.__name__ = "h_%s" % wsim.KIND_NAMES[kind]
    return h


h_thread, h_process, h_remote, h_pthread, h_pprocess, h_premote = [make_h(k) for k in range(6)]


def _harness(kind):
    name = wsim.KIND_NAMES[kind]
    params = OrderedDict([("e", (0, len(ENDINGS) - 1)), ("k", (0, KMAX[kind]))])
    quick = {"ranges": {"e": (0, 8)}, "partition": ["e"], "filter": (lambda f: f["e"] in (0, 3, 6, 7, 8)), "timeout": 300, "twin_fixed": {"e": 0}}
    thorough = {"partition": ["e"], "timeout": 900, "twin_fixed": {"e": 0}}
    return Harness(name, "vf.props.c03:h_%s" % name, params, tiers={"quick": quick, "thorough": thorough},
                   functions=_FUNCS + ["pyworkers.utils:foreign_raise"])


HARNESSES = [_harness(k) for k in range(6)]


# ---------------------------------------------------------------------------------------------
# "so its finally/with blocks run": a target whose clean-up takes a few (model) seconds of interruptible Python code, well within
# the timeout given to terminate(); one request must interrupt the target once, not its clean-up as well
CLEAN_TMO = 5


def h_cleanup(kind, steps, j):
    with notrace():
        kind_, steps_, j_ = conc(kind, 6), conc(steps, 4), conc(j, 3)
        ev("c03.cleanup", wsim.KIND_NAMES[kind_], steps_, j_)
        T.reset()
        W = wsim.World(server=wsim.is_remote_kind(kind_))
        rec = {}
        try:
            try:
                w = W.make(kind_, T.slow_cleanup, args=[8, steps_])
                if wsim.is_persistent(kind_):
                    w.enqueue()
                W.sim.sleep(1.5 + j_)
                rec["marks0"] = list(T.MARKS)
                t0 = W.sim.clock
                # remote kinds have a separate, documented budget for the graceful phase on the server side (remote_timeout, default 1 s)
                tkw = {"remote_timeout": CLEAN_TMO} if wsim.is_remote_kind(kind_) else {}
                rec["term"] = w.terminate(timeout=CLEAN_TMO, **tkw)
                rec["elapsed"] = W.sim.clock - t0
                rec["dead"] = not w.is_alive()
                rec["obs"], rec["obs_err"] = wsim.observe(w)
            except Hang:
                rec["hang"] = vos.hang_record()
            except Exception as e:  # noqa
                rec["api_exc"] = e
            rec["marks"] = list(T.MARKS)
        finally:
            errs = W.close()
        if errs:
            raise RuntimeError("simulation kernel errors: %r" % (errs,))
        name = wsim.KIND_NAMES[kind_]
        detail = "rec=%r" % ({k: v for k, v in rec.items()},)
        if "hang" in rec:
            return Outcome("c03.cleanup.terminate-blocks-forever|" + name, True, detail)
        if "api_exc" in rec:
            return Outcome("c03.cleanup.terminate-raises-%s|%s" % (type(rec["api_exc"]).__name__, name), True, detail)
        if "enter" not in rec["marks0"] or "cleanup-begin" in rec["marks0"]:
            return Outcome(None, False, detail)         # not inside the target's loop when the request was made
        if rec["term"] is not True or not rec["dead"]:
            return Outcome("c03.cleanup.not-dead-within-the-timeout|" + name, True, detail)
        if rec["obs_err"] or rec["obs"] is None:
            return Outcome("c03.cleanup.unreadable-after-terminate|" + name, True, detail)
        alive, he, res, err = rec["obs"]
        if not (he is True and res is None and isinstance(err, WorkerTerminatedError)):
            return Outcome("c03.cleanup.interrupted-target-not-reported-as-terminated|" + name, True, detail)
        marks = rec["marks"]
        if marks.count("cleanup-begin") != 1 or "return" in marks:
            return Outcome("c03.cleanup.target-not-interrupted-exactly-once|" + name, True, detail)
        if "cleanup-done" not in marks or "exit" not in marks:
            return Outcome("c03.cleanup.finally-block-cut-short|" + name, True, detail)
        return Outcome(None, True, detail)


H_CLEANUP = Harness("cleanup", "vf.props.c03:h_cleanup", OrderedDict([("kind", (0, 5)), ("steps", (0, 3)), ("j", (0, 2))]),
                    tiers={"quick": {"partition": ["kind"], "timeout": 200, "twin_fixed": {"kind": 0}},
                           "thorough": {"partition": ["kind"], "timeout": 200, "twin_fixed": {"kind": 0}}},
                    functions=_FUNCS + ["pyworkers.utils:foreign_raise"])
HARNESSES.append(H_CLEANUP)

def real_replay(harness, args, failure):
    """Thread kinds: reproduce the landing on a real thread with a line tracer (vf/realthread.py)."""
    import re
    if harness not in ("thread", "pthread"):
        return None, "real-thread replay covers the thread kinds only"
    m = re.search(r"label=(\S+)", failure.get("detail", ""))
    if not m or ":" not in m.group(1) or m.group(1).startswith("target:"):
        return None, "landing label has no source line"
    label = m.group(1)
    from .. import realthread
    realthread.restore_real_world()
    from pyworkers.thread import ThreadWorker
    from pyworkers.persistent_thread import PersistentThreadWorker
    ending, idx = ENDINGS[args["e"]]
    cls = ThreadWorker if harness == "thread" else PersistentThreadWorker
    T.reset()
    r = realthread.run_with_landing(lambda: cls(T.work, args=[ending, idx]), label,
                                    after=(lambda w: w.enqueue()) if harness == "pthread" else None)
    if r is None or not r["fired"]:
        return None, "the real thread never reached %s" % label
    alive, he, res, err = r["observed"]
    is_wte = he is True and res is None and isinstance(err, WorkerTerminatedError)
    unreported = he is True and res is None and err is None
    text = "real thread, WorkerTerminatedError raised at %s: observed %r" % (label, r["observed"])
    sig = failure["signature"]
    if "outcome-not-terminated" in sig or "not-reported-as-terminated" in sig:
        return (not (is_wte or unreported)) if "before-target" in sig else (not is_wte), text
    if "outcome-neither-own-nor-terminated" in sig:
        return (not (is_wte or unreported or own_outcome_ok(3 if harness == "pthread" else 0, args["e"], he, res, err))), text
    return None, text + " (no automatic comparison for this signature)"


SPEC = PropSpec(
    "C03", HARNESSES,
    assumptions=[
        "simulation model of C01; foreign_raise is replaced by 'record a pending asynchronous exception for the actor with that thread ident in "
        "the caller's process'; it is raised at that actor's next statement-level injection point or when its blocking virtual-OS call returns",
        "the target (vf/targets.py: work) lets the exception propagate and records enter/finally/exit marks",
        "harness 'cleanup': a target whose finally block takes 0-3 model seconds of interruptible Python code; terminate(timeout=5) is called "
        "1.5-3.5 s after the start, while the target is in its loop; the clean-up must be entered once and run to its end",
        "phase of the landing point is read from the target's marks at landing time; for landings before the target was entered or after it "
        "finished, an outcome 'has_error True, error None' is accepted next to the terminated / own outcome (the statement is explicit only for "
        "landings inside the running target)",
    ],
    outside=["opcode-level landing points", "wall-clock bound of terminate (C04 covers model time)", "Windows aux-socket path"],
    stubs=["vf/simos.py"],
    real_replay=real_replay,
    technique="CrossHair/z3 bounded symbolic execution over a deterministic simulation of the real worker code",
)
