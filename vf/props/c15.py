"""C15 — load-time state patches reach only the addressed objects and leave no residue.

Graph arrangements as in C14; a patch dictionary is assembled from symbolic choices and its leaf
*values* stay symbolic integers all the way through RemoteState (they never cross a C boundary:
``patched_state.update(current_patches())`` is Python-level), so "object o carries value v iff o is
the addressed object" is decided for all values.  A second harness checks that a loads call that
failed part-way leaves nothing behind that changes a later loads on the same thread.
"""
import threading
from collections import OrderedDict

import pyworkers.remote_pickle as rp
from pyworkers._remote_pickle.state import RemoteState

from . import pk
from .c13 import _c, _attempt
from .c14 import build_classes, build_graph, _FUNCS
from ..rt import Outcome, ev, notrace, sym_same, is_sym
from ..xh import Harness
from ..main import PropSpec


def _expected(g, inst, hs, p2, top, tkind, ckind, v1, v2, v3):
    """Reference semantics, written from the statement.  Returns dict tag -> {attr: value} of the
    attribute overrides each opt-in instance must show (and nothing else may change), plus the set
    of tags that must have been replaced by a plain value."""
    over = {}
    replaced = {}
    root_addressed = (top == 0)          # the top-level object is the opt-in root only if the graph *is* the root
    if not root_addressed:
        return over, replaced
    r = {}
    if tkind in (1, 3):
        r["pnew"] = v1                    # new attribute on the top-level object
    if tkind in (2, 3):
        r["val"] = v2                     # existing attribute overridden
    n = len(inst)
    direct1 = n >= 2 and hs[1] == 0      # I1 is a direct attribute 'c1' of the root
    if ckind == 1:                        # dict patch under the key of direct child c1
        if direct1:
            over["i1"] = {"val": v3}
        else:
            r["c1"] = {"val": v3}         # no such child: plain entry on the top-level state
    elif ckind == 2:                      # non-dict under c1 replaces the child
        r["c1"] = v3
        if direct1:
            replaced["i1"] = v3
    elif ckind == 3:                      # dict under a key that is not a child at all
        r["nochild"] = {"val": v3}
    elif ckind == 4:                      # nested: c1 -> c2
        if direct1:
            if n >= 3 and hs[2] == 0 and p2 == 1:     # I2 is the direct child 'c2' of I1
                over["i2"] = {"val": v3}
            else:
                over["i1"] = {"c2": {"val": v3}}      # no such grandchild: plain entry on I1's state
        else:
            r["c1"] = {"c2": {"val": v3}}
    over["i0"] = r
    return over, replaced


def _cause(n, p2, hs, top, share):
    """Coarse class of the arrangement, part of every failure signature (so that a recorded finding about
    one class never hides a failure in another, in particular in the plain chain of direct children)."""
    if top != 0:
        return "top-level-object-not-opt-in"
    parents = [None, 0, p2, 0]
    direct = {}
    for k in range(1, n):
        if hs[k] == 0:
            par = min(parents[k], k - 1)
            direct[par] = direct.get(par, 0) + 1
    if any(c >= 2 for c in direct.values()) or (share == 1 and n >= 2 and hs[n - 1] == 0 and n - 1 >= 1 and min(parents[n - 1], n - 2) == 0):
        return "several-direct-children-under-one-parent"
    if any(hs[k] != 0 for k in range(1, n)):
        return "opt-in-object-held-through-a-container"
    if share != 0 and n >= 2:
        return "shared-or-cyclic-reference"
    return "chain-of-direct-children"


def _patch_dict(tkind, ckind, v1, v2, v3):
    p = {}
    if tkind in (1, 3):
        p["pnew"] = v1
    if tkind in (2, 3):
        p["val"] = v2
    if ckind == 1:
        p["c1"] = {"val": v3}
    elif ckind == 2:
        p["c1"] = v3
    elif ckind == 3:
        p["nochild"] = {"val": v3}
    elif ckind == 4:
        p["c1"] = {"c2": {"val": v3}}
    return p


def _attrs_of(o):
    d = {}
    for k, v in vars(o).items():
        if k in ("seen_remote", "via_ss"):
            continue
        d[k] = v
    return d


def h_patch(n, p2, h1, h2, top, share, ss, marker, tkind, ckind, v1, v2, v3):
    # v1..v3 stay symbolic: pyworkers only moves them between dicts; every comparison is made by sym_same()
    with notrace():
        return _h_patch0(n, p2, h1, h2, top, share, ss, marker, tkind, ckind, v1, v2, v3)


def _h_patch0(n, p2, h1, h2, top, share, ss, marker, tkind, ckind, v1, v2, v3):
    snap = pk.snapshot()
    try:
        n = max(1, _c(n, 4))
        p2 = _c(p2, 2) if n >= 3 else 0
        hs = [0, _c(h1, 5) if n >= 2 else 0, _c(h2, 5) if n >= 3 else 0, 0]
        top, share, ss, marker = _c(top, 4), _c(share, 3), _c(ss, 2), _c(marker, 4)
        tkind, ckind = _c(tkind, 4), _c(ckind, 5)
        ev("patch", n, p2, str(hs), top, share, ss, marker, tkind, ckind)
        if tkind == 0 and ckind == 0:
            return Outcome(None, False)
        out = _h_patch(n, p2, hs, top, share, ss, marker, tkind, ckind, v1, v2, v3)
        if out.sig is not None:
            return Outcome(out.sig + "|" + _cause(n, p2, hs, top, share), out.interesting, out.detail)
        return out
    finally:
        pk.restore(snap)


def _h_patch(n, p2, hs, top, share, ss, marker, tkind, ckind, v1, v2, v3):
    if True:
        R, Plain = build_classes(marker, 1 if ss else 0, 0)
        g, inst = build_graph(n, p2, 0, hs, top, share, R, Plain)
        data = rp.dumps(g)
        base = _attempt(lambda: rp.loads(data))
        if base[0] != "ok":
            return Outcome(None, False)          # unpatched load itself fails: C14's subject
        patches = _patch_dict(tkind, ckind, v1, v2, v3)
        got = _attempt(lambda: rp.loads(data, extra_kwargs=patches))
        if got[0] != "ok":
            return Outcome("c15.patch.loads-raises-%s" % got[1], True)
        over, replaced = _expected(g, inst, hs, p2, top, tkind, ckind, v1, v2, v3)
        base_objs = {o.tag: o for o in pk.instances(base[1]) if type(o).__name__ in ("R", "R2")}
        got_objs = {}
        for o in pk.instances(got[1]):
            if type(o).__name__ in ("R", "R2"):
                if o.tag in got_objs and got_objs[o.tag] is not o:
                    return Outcome("c15.patch.duplicated-object", True)
                got_objs[o.tag] = o
        for tag, b in base_objs.items():
            if tag in replaced:
                continue
            if tag not in got_objs:
                # unreachable because its holder was replaced?
                if any(True for t in replaced):
                    continue
                return Outcome("c15.patch.object-lost", True)
            o = got_objs[tag]
            want = _attrs_of(b)
            ov = over.get(tag, {})
            have = _attrs_of(o)
            for k in sorted(list(want) + list(have) + list(ov)):
                if k in ov:
                    exp = ov[k]
                    if k not in have:
                        return Outcome("c15.patch.addressed-entry-missing", True, "tag=%s key=%s" % (tag, k))
                    if not _eq(have[k], exp):
                        return Outcome("c15.patch.addressed-entry-wrong-value", True, "tag=%s key=%s" % (tag, k))
                    continue
                if k not in want:
                    return Outcome("c15.patch.unaddressed-object-gained-entry", True, "tag=%s key=%s" % (tag, k))
                if k not in have:
                    return Outcome("c15.patch.unaddressed-entry-lost", True, "tag=%s key=%s" % (tag, k))
                if not _shallow_same(want[k], have[k]):
                    return Outcome("c15.patch.unaddressed-entry-changed", True, "tag=%s key=%s" % (tag, k))
        for tag, val in replaced.items():
            holder = got_objs.get("i0")
            if holder is None or not _eq(getattr(holder, "c1", None), val):
                return Outcome("c15.patch.child-not-replaced", True)
        for o in got_objs.values():
            if "__setstate__" in vars(o):
                return Outcome("c15.patch.leftover-instance-setstate", True)
        return Outcome(None, True)


def _eq(a, b):
    if isinstance(b, dict):
        if not isinstance(a, dict) or set(a) != set(b):
            return False
        return all(_eq(a[k], b[k]) for k in b)
    if isinstance(a, (dict, list, tuple)) or type(a).__module__ == "vf_dyn_classes":
        return False
    return sym_same(a, b)


def _shallow_same(a, b):
    """Same kind of thing in the same place (object identity cannot be compared across two loads)."""
    ta, tb = type(a), type(b)
    if ta.__module__ == "vf_dyn_classes" or tb.__module__ == "vf_dyn_classes":
        return ta is tb and getattr(a, "tag", None) == getattr(b, "tag", None)
    if ta is not tb and not (is_sym(a) or is_sym(b)):
        return False
    if ta in (list, tuple):
        return len(a) == len(b) and all(_shallow_same(x, y) for x, y in zip(a, b))
    if ta is dict:
        return list(a) == list(b) and all(_shallow_same(a[k], b[k]) for k in a)
    return sym_same(a, b)


# ---------------------------------------------------------------------------------------------
class _Boom(Exception):
    pass


def h_history(fail, n, h1, top, ss, marker, tkind, ckind, v1, v2, v3):
    """loads #1 fails part-way (or succeeds), then loads #2 must behave as on a fresh thread."""
    with notrace():
        return _h_history(fail, n, h1, top, ss, marker, tkind, ckind, v1, v2, v3)


def _h_history(fail, n, h1, top, ss, marker, tkind, ckind, v1, v2, v3):
    snap = pk.snapshot()
    saved_local = RemoteState._active_contexts
    try:
        fail = _c(fail, 5)
        n = max(1, _c(n, 4))
        hs = [0, _c(h1, 5) if n >= 2 else 0, 0, 0]
        top, ss, marker = _c(top, 4), _c(ss, 2), _c(marker, 4)
        tkind, ckind = _c(tkind, 4), _c(ckind, 5)
        ev("history", fail, n, str(hs), top, ss, marker, tkind, ckind)
        R, Plain = build_classes(marker, 1, 0)
        g, inst = build_graph(n, 1, 0, hs, top, 0, R, Plain)
        data = rp.dumps(g)
        patches1 = {"val": 1, "c1": {"val": 2}}
        # --- first call
        if fail == 0:
            first = _attempt(lambda: rp.loads(data, extra_kwargs=patches1))
        elif fail == 1:
            first = _attempt(lambda: rp.loads(data[:len(data) // 2], extra_kwargs=patches1))       # truncated stream
        elif fail == 2:
            first = _attempt(lambda: rp.loads(data[:-1], extra_kwargs=patches1))                    # cut just before STOP
        elif fail == 3:
            origs = [(c, c.__setstate__) for c in set(R)]

            def boom(self, state):
                raise _Boom()
            for c, _o in origs:
                type.__setattr__(c, "__setstate__", boom)
            try:
                first = _attempt(lambda: rp.loads(data, extra_kwargs=patches1))
            finally:
                for c, o in origs:
                    type.__setattr__(c, "__setstate__", o)
        else:
            first = _attempt(lambda: rp.loads(b"garbage", extra_kwargs=patches1))
        if fail in (1, 2, 3, 4) and first[0] == "ok":
            return Outcome(None, False)
        patches2 = _patch_dict(tkind, ckind, v1, v2, v3)
        second = _attempt(lambda: pk.canon(rp.loads(data, extra_kwargs=patches2), ignore=()))
        # --- same call on a fresh thread-local state
        RemoteState._active_contexts = threading.local()
        fresh = _attempt(lambda: pk.canon(rp.loads(data, extra_kwargs=patches2), ignore=()))
        RemoteState._active_contexts = saved_local
        if second[0] != fresh[0]:
            return Outcome("c15.history.second-load-%s-fresh-%s" % (second[0], fresh[0]), True)
        if second[0] == "exc":
            if second[1] != fresh[1]:
                return Outcome("c15.history.second-load-raises-differently", True)
            return Outcome(None, fail != 0)
        if not _canon_eq(second[1], fresh[1]):
            return Outcome("c15.history.second-load-differs-from-fresh-thread", True)
        return Outcome(None, fail != 0)
    finally:
        RemoteState._active_contexts = saved_local
        pk.restore(snap)


def _canon_eq(a, b):
    if type(a) is tuple and type(b) is tuple:
        return len(a) == len(b) and all(_canon_eq(x, y) for x, y in zip(a, b))
    return sym_same(a, b)


_pparams = OrderedDict([("n", (1, 3)), ("p2", (0, 1)), ("h1", (0, 4)), ("h2", (0, 4)), ("top", (0, 3)), ("share", (0, 2)),
                        ("ss", (0, 1)), ("marker", (0, 3)), ("tkind", (0, 3)), ("ckind", (0, 4)),
                        ("v1", (-1000, 1000)), ("v2", (-1000, 1000)), ("v3", (-1000, 1000))])

H_PATCH = Harness(
    "patch", "vf.props.c15:h_patch", _pparams,
    tiers={
        "quick": {"ranges": {"h1": (0, 2), "h2": (0, 1), "top": (0, 1), "marker": (1, 2)}, "fixed": {"share": 0},
                  "partition": ["n", "tkind", "ckind", "ss", "marker"], "timeout": 300,
                  "twin_fixed": {"n": 2, "tkind": 1, "ckind": 1, "ss": 1, "marker": 1}},
        "thorough": {"partition": ["n", "tkind", "ckind", "ss", "marker", "top"], "timeout": 1800,
                     "twin_fixed": {"n": 2, "tkind": 1, "ckind": 1, "ss": 1, "marker": 1, "top": 0}},
    },
    functions=_FUNCS + ["pyworkers._remote_pickle.state:RemoteState.context.__init__"],
)

_hparams = OrderedDict([("fail", (0, 4)), ("n", (1, 3)), ("h1", (0, 4)), ("top", (0, 3)), ("ss", (0, 1)), ("marker", (0, 3)),
                        ("tkind", (0, 3)), ("ckind", (0, 4)), ("v1", (-1000, 1000)), ("v2", (-1000, 1000)), ("v3", (-1000, 1000))])

H_HISTORY = Harness(
    "history", "vf.props.c15:h_history", _hparams,
    tiers={
        "quick": {"ranges": {"n": (1, 2), "top": (0, 1), "h1": (0, 1)}, "fixed": {"marker": 1, "ss": 1, "v1": 5, "v2": 6},
                  "partition": ["fail", "tkind"], "timeout": 300, "twin_fixed": {"fail": 3, "tkind": 1}},
        "thorough": {"fixed": {"v1": 5, "v2": 6}, "partition": ["fail", "tkind", "ckind", "n"], "timeout": 1200,
                     "twin_fixed": {"fail": 3, "tkind": 1, "ckind": 1, "n": 2}},
    },
    functions=_FUNCS,
)

SPEC = PropSpec(
    "C15", [H_PATCH, H_HISTORY],
    assumptions=[
        "reference semantics from the statement: top-level entries override the top-level object's state only if the top-level object is "
        "itself the opt-in object; a dict under key k overrides the state of the direct opt-in child stored under k, otherwise it is a plain "
        "entry of the top-level state; a non-dict under k replaces the child; nobody else changes",
        "patch leaf values are symbolic integers in [-1000, 1000]; structure choices are symbolic small integers",
        "independence is judged by comparing the second loads with the same call made after replacing RemoteState._active_contexts by a new threading.local()",
    ],
    outside=["truly concurrent loads on several threads (thread-locality is argued from threading.local, not executed)",
             "patches on graphs whose unpatched load already fails (C14)"],
    stubs=[],
    technique="CrossHair/z3 bounded symbolic execution with symbolic patch values through RemoteState",
)


# ---------------------------------------------------------------------------------------------
def h_threads(ss, marker, tka, tkb, cka, ckb, v1, v2, v3):
    """Two patched loads overlap on two threads: each must give what it gives alone."""
    with notrace():
        snap = pk.snapshot()
        try:
            ss_, marker_ = _c(ss, 2), _c(marker, 4)
            tka_, tkb_, cka_, ckb_ = _c(tka, 4), _c(tkb, 4), _c(cka, 3), _c(ckb, 3)
            ev("threads", ss_, marker_, tka_, tkb_, cka_, ckb_)
            R, Plain = build_classes(marker_, ss_, 0)

            def graph():
                g, inst = build_graph(2, 0, 0, [0, 0, 0, 0], 0, 0, R, Plain)     # root with a direct opt-in child 'c1'
                inst[0].y = pk.Yielder(1)
                return g
            pa, pb = _patch_dict(tka_, cka_, v1, v2, v3), _patch_dict(tkb_, ckb_, v2, v3, v1)
            sig = pk.two_thread_loads(lambda: rp.dumps(graph()), lambda: rp.dumps(graph()),
                                      lambda d: rp.loads(d, extra_kwargs=pa), lambda d: rp.loads(d, extra_kwargs=pb), _canon_eq)
            if sig == "overlap-not-reached":
                return Outcome(None, False)
            return Outcome(None if sig is None else "c15.threads." + sig, True)
        finally:
            pk.restore(snap)


H_THREADS = Harness(
    "threads", "vf.props.c15:h_threads",
    OrderedDict([("ss", (0, 1)), ("marker", (0, 3)), ("tka", (0, 3)), ("tkb", (0, 3)), ("cka", (0, 2)), ("ckb", (0, 2)),
                 ("v1", (-1000, 1000)), ("v2", (-1000, 1000)), ("v3", (-1000, 1000))]),
    tiers={"quick": {"fixed": {"marker": 1}, "partition": ["ss", "tka"], "timeout": 300, "twin_fixed": {"ss": 1, "tka": 1}},
           "thorough": {"partition": ["ss", "marker", "tka"], "timeout": 600, "twin_fixed": {"ss": 1, "marker": 1, "tka": 1}}},
    functions=_FUNCS + ["pyworkers._remote_pickle.state:RemoteState.context.__init__"],
)
SPEC.harnesses.append(H_THREADS)
SPEC.assumptions.append("harness 'threads': two loads with their own patches overlap on two real OS threads scheduled by vf/sim.py (thread B's whole "
                        "loads runs while thread A is inside the restoration of a plain object of its graph); each must equal its own sequential result")
SPEC.outside[:] = [o for o in SPEC.outside if not o.startswith("truly concurrent")] + ["overlaps of more than two loads, or switching points other than 'while a nested object is restored'"]
