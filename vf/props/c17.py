"""C17 — restart() always yields a fresh, equivalent, live worker.

Simulation of the three persistent worker classes: a worker is brought into a symbolic state
(never used / results unread / closed / died by exception / killed by signal / uncooperative
target), restarted 1-3 times (optionally with a caller-supplied results pipe as the Pool does) and
then used again."""
import queue
from collections import OrderedDict

import pyworkers.utils as utils

from .. import wsim, targets as T, vos
from ..vos import Hang, Killed
from ..rt import Outcome, ev, notrace, conc
from ..xh import Harness
from ..main import PropSpec

STATES = ["never-used", "results-unread", "closed", "died-by-exception", "killed-by-signal", "uncooperative-target",
          "stuck-writing-end-marker-into-full-pipe"]
LONG = 300


FK = 40


IDENTS = [("the-name", 42), ("", 0), ("w", 0.0)]       # names and user ids are arbitrary user values, falsy ones included


def h_restart(kind, state, chain, pipemode, fk, ident=0):
    with notrace():
        ident_ = conc(ident, len(IDENTS))
        kind_ = 3 + conc(kind, 3)
        state_, chain_, pipemode_ = conc(state, len(STATES)), 1 + conc(chain, 3), conc(pipemode, 2)
        fk_ = conc(fk, FK + 1) if kind_ == 5 else 0
        name = wsim.KIND_NAMES[kind_]
        ev("c17", name, STATES[state_], chain_, pipemode_)
        T.reset()
        W = wsim.World(server=wsim.is_remote_kind(kind_))
        try:
            if fk_:
                # the parent-side forwarding thread of the first incarnation is slow at its (fk-1)-th statement
                wsim.Landing(W, kind_, fk_ - 1, action="delay", select=wsim.frontend_actor, delay=2.0)
            sig, inter = _run(W, kind_, state_, chain_, pipemode_, IDENTS[ident_])
        except Hang:
            sig, inter = "c17.restart-blocks-forever", True
        except Killed:
            sig, inter = "c17.restart-kills-the-caller", True
        finally:
            errs = W.close()
            if errs:
                raise RuntimeError("simulation kernel errors: %r" % (errs,))
        return Outcome(None if sig is None else "%s|%s|%s" % (sig, STATES[state_], name), inter, "")


def flexi(mode, x=0):
    """target of the restarted worker: mode 'ok' -> ('v', x); 'boom' -> raises; 'stuck' -> swallows"""
    if mode == "boom":
        raise T.Boom("boom", x)
    if mode == "stuck":
        return T.swallow(LONG)
    return ("v", x)


def child_procs(W):
    return {pid for pid, p in W.sim.procs.items() if not p.exited and pid != getattr(W, "server_pid", None)}


def _run(W, kind, state, chain, pipemode, ident=IDENTS[0]):
    s = W.sim
    thread = wsim.is_thread_kind(kind)
    kw = {}
    first_pipe = None
    if pipemode:
        first_pipe = utils.Pipe()
        kw["results_pipe"] = first_pipe
    w = W.make(kind, flexi, args=["ok"], name=ident[0], userid=ident[1], **kw)
    for inc in range(chain):
        old_id = w.id
        old_procs = child_procs(W)
        st = state if inc == 0 else 1
        # ---- bring the incarnation into the state
        if st == 1:
            w.enqueue("ok", 100 + inc)
            w.enqueue("ok", 200 + inc)
        elif st == 2:
            w.enqueue("ok", 100 + inc)
            w.close()
        elif st == 3:
            w.enqueue("boom", 1)
            s.sleep(2)
        elif st == 4:
            if not thread:
                w.enqueue("ok", 100)
                s.sleep(1)
                for pid in list(old_procs):
                    s.procs[pid]._sigkill()
                s.sleep(1)
        elif st == 5:
            w.enqueue("stuck", 0)
            s.sleep(1)
        elif st == 6:
            # caller-supplied pipe that nobody reads and that is full after one result: the child has finished its work (its final
            # outcome is set) but blocks in _cleanup writing the end-of-results message
            if not (thread and pipemode and inc == 0):
                return None, False
            w.enqueue("ok", "x" * 60)
            s.sleep(1)
            ch = first_pipe.parent_end.stdpipe.chan
            ch.CAPACITY = max(ch.buffered(0), ch.buffered(1)) + 5      # no room left for the end-of-results message
            w.close()
            s.sleep(1)
            if not w.is_alive():
                return None, False
        # ---- restart
        rkw = {}
        if pipemode:
            rkw["results_pipe"] = utils.Pipe()
        try:
            w.restart(timeout=3, **rkw)
        except RuntimeError:
            if st in (5, 6) and thread:
                return None, True          # a stuck thread cannot be stopped: raising is the specified behaviour
            return "c17.restart-raises-RuntimeError", True
        except (Hang, Killed):
            raise
        except Exception as e:  # noqa
            return "c17.restart-raises-%s" % type(e).__name__, True
        if st in (5, 6) and thread:
            return "c17.restart-abandons-a-running-child", True
        # ---- the new incarnation
        if not w.is_alive():
            return "c17.restarted-worker-not-alive", True
        if w.name != ident[0] or w.userid != ident[1] or type(w.userid) is not type(ident[1]):
            return "c17.name-or-userid-lost", True
        if not thread and w.id == old_id:
            return "c17.identity-not-renewed", True
        if not thread:
            s.sleep(5)
            still = old_procs & child_procs(W)
            if still:
                return "c17.old-child-process-still-running", True
        try:
            w.enqueue("ok", 7 + inc)
        except (Hang, Killed):
            raise
        except Exception as e:  # noqa
            return "c17.new-incarnation-refuses-input(%s)" % type(e).__name__, True
        try:
            if pipemode:
                msg = rkw["results_pipe"].parent_end.recv()
                counter, flag, value, wid = msg
                if not flag:
                    return "c17.new-stream-starts-with-end-marker", True
                if counter != 1:
                    return "c17.counter-does-not-restart-from-zero", True
                if wid != w.id:
                    return "c17.result-tagged-with-old-identity", True
            else:
                value = w.next_result()
        except queue.Empty:
            return "c17.new-incarnation-yields-nothing", True
        except (Hang, Killed):
            raise
        except Exception as e:  # noqa
            return "c17.reading-new-stream-raises-%s" % type(e).__name__, True
        if value != ("v", 7 + inc):
            return "c17.result-of-previous-incarnation-in-new-stream", True
    if not w.wait(timeout=5):
        return "c17.final-wait-fails", True
    if w.has_error is not False or w.result != 1:
        return "c17.counter-does-not-restart-from-zero", True
    return None, state != 0


_params = OrderedDict([("kind", (0, 2)), ("state", (0, len(STATES) - 1)), ("chain", (0, 2)), ("pipemode", (0, 1)), ("fk", (0, FK)), ("ident", (0, len(IDENTS) - 1))])

_FUNCS = ["pyworkers.persistent:PersistentWorker.restart", "pyworkers.worker:Worker._get_restart_args", "pyworkers.remote:RemoteWorker._get_restart_args",
          "pyworkers.persistent_thread:PersistentThreadWorker.__init__", "pyworkers.persistent_process:PersistentProcessWorker.__init__",
          "pyworkers.persistent_remote:PersistentRemoteWorker.__init__", "pyworkers.worker:Worker.__init__",
          "pyworkers.persistent_thread:PersistentThreadWorker.wait", "pyworkers.persistent_process:PersistentProcessWorker.wait",
          "pyworkers.persistent_remote:PersistentRemoteWorker.wait", "pyworkers.process:ProcessWorker.terminate", "pyworkers.remote:RemoteWorker.terminate"]

H_RESTART = Harness(
    "restart", "vf.props.c17:h_restart", _params,
    tiers={
        "quick": {"ranges": {"chain": (0, 1)}, "partition": ["kind", "state"], "timeout": 300, "twin_fixed": {"kind": 1, "state": 1},
                  "extra_pre": ["ident == 0 or (pipemode == 0 and fk == 0 and chain == 0)"]},
        "thorough": {"partition": ["kind", "state", "chain", "pipemode"], "timeout": 600, "twin_fixed": {"kind": 1, "state": 1, "chain": 1, "pipemode": 0},
                     "extra_pre": ["ident == 0 or fk == 0"]},
    },
    functions=_FUNCS,
)

SPEC = PropSpec(
    "C17", [H_RESTART],
    assumptions=[
        "simulation model of C01; restart(timeout=3) with default terminate arguments; 'killed by signal' = SIGKILL of every child process of the worker; "
        "'uncooperative' = target swallowing every Exception for 300 model seconds",
        "for the thread kind an uncooperative target cannot be stopped: RuntimeError is the specified outcome; the same holds for a thread worker that has "
        "finished its work but is blocked writing its end-of-results message into a full caller-supplied pipe (state 6)",
        "old child processes must be gone 5 model seconds after restart() returned",
        "remote kind: optionally the forwarding thread of the first incarnation sleeps 2 model seconds at one of its first 40 statements, so that restart() "
        "meets an old incarnation whose parent-side thread is still finishing",
    ],
    outside=["restart(timeout=None) on a child that never exits (the caller asked to wait forever)", "more than 3 consecutive restarts"],
    stubs=["vf/simos.py"],
    technique="CrossHair/z3 bounded symbolic execution over a deterministic simulation of the real worker code",
)
