"""C18 — remote contexts are unique per id, supply their workers' work, and clean up.

A symbolic sequence of client operations (create / create duplicate / delete / delete unknown /
start worker in context / start worker in unknown context / a client that asks for a worker in a
context and disconnects before sending it) runs against the real RemoteServer in
the simulation and is compared with a dictionary model of the server's context table."""
from collections import OrderedDict

import pyworkers.remote as remote
from pyworkers.remote import send_msg, recv_msg
from pyworkers.persistent_remote import PersistentRemoteWorker
from pyworkers.remote_context import RemoteContext

from .. import wsim, targets as T, vos, simos, sim as simmod
from ..vos import Hang, Killed
from ..rt import Outcome, ev, notrace, conc
from ..xh import Harness
from ..main import PropSpec

OPS = ["create", "delete", "worker", "worker-unknown", "delete-unknown", "worker-abandoned"]
NOPS = 6


def h_seq(n, o1, i1, o2, i2, o3, i3, o4, i4, o5, i5, o6, i6):
    with notrace():
        n_ = conc(n, NOPS + 1)
        ops = [(o1, i1), (o2, i2), (o3, i3), (o4, i4), (o5, i5), (o6, i6)][:n_]
        ops = [(conc(o, len(OPS)), 1 + conc(i, 3)) for (o, i) in ops]
        ev("c18", str(ops))
        T.reset()
        W = wsim.World(server=True)
        try:
            sig = _run(W, ops)
        except Hang:
            sig = "c18.client-blocks-forever"
        finally:
            errs = W.close()
            if errs:
                raise RuntimeError("simulation kernel errors: %r" % (errs,))
        return Outcome(sig, n_ >= 2, "ops=%r" % ([(OPS[o], i) for o, i in ops],))


def raw_delete(W, ctx_id):
    sockmod = remote.socket
    so = sockmod.socket(sockmod.AF_INET, sockmod.SOCK_STREAM)
    so.connect(wsim.SERVER_ADDR)
    try:
        send_msg(so, (ctx_id, False))
        send_msg(so, None)
        return recv_msg(so)
    finally:
        so.close()


def raw_abandoned_worker(W, ctx_id):
    """A client announces a worker for context ctx_id and goes away before the worker itself is sent."""
    sockmod = remote.socket
    so = sockmod.socket(sockmod.AF_INET, sockmod.SOCK_STREAM)
    so.connect(wsim.SERVER_ADDR)
    try:
        send_msg(so, (ctx_id, True))
    finally:
        so.close()
    W.sim.sleep(2)


def _run(W, ops):
    s = W.sim
    model = {}          # ctx id -> (context object, generation tag)
    workers = []        # (worker, ctx id, tag)
    gen = 0
    for (o, i) in ops:
        op = OPS[o]
        if W.server_actor.state in ("done", "zombie"):
            return "c18.server-terminated"
        if op == "create":
            gen += 1
            tag = "g%d" % gen
            try:
                ctx = RemoteContext(i, host=wsim.SERVER_ADDR, target=T.ctx_target, args=[tag])
            except ValueError:
                if i not in model:
                    return "c18.create-rejected-for-free-id"
                continue
            except Exception as e:  # noqa
                return "c18.create-raises-%s" % type(e).__name__
            if i in model:
                return "c18.duplicate-id-accepted"
            model[i] = (ctx, tag)
        elif op == "delete":
            if i in model:
                ctx, tag = model.pop(i)
                try:
                    ok = ctx.wait()
                except Exception as e:  # noqa
                    return "c18.delete-raises-%s" % type(e).__name__
                if not ok:
                    return "c18.delete-fails"
                s.sleep(8)
                for (w, ci, t) in workers:
                    if ci == i and t == tag:
                        try:
                            if w.is_alive():
                                return "c18.worker-outlives-its-context"
                        except Exception as e:  # noqa
                            return "c18.is_alive-raises-%s" % type(e).__name__
            else:
                try:
                    r = raw_delete(W, i)
                except Exception as e:  # noqa
                    return "c18.delete-unknown-raises-%s" % type(e).__name__
        elif op == "delete-unknown":
            try:
                r = raw_delete(W, 9)
            except Exception as e:  # noqa
                return "c18.delete-unknown-raises-%s" % type(e).__name__
        elif op == "worker-abandoned":
            try:
                raw_abandoned_worker(W, i)
            except Hang:
                raise
            except Exception as e:  # noqa
                return "c18.abandoned-request-raises-%s" % type(e).__name__
        elif op in ("worker", "worker-unknown"):
            ci = i if op == "worker" else 9
            try:
                w = PersistentRemoteWorker(None, host=wsim.SERVER_ADDR, context=ci)
            except Hang:
                raise
            except Exception as e:  # noqa
                if ci in model:
                    return "c18.worker-in-existing-context-refused(%s)" % type(e).__name__
                continue
            if ci not in model:
                return "c18.worker-created-in-unknown-context"
            tag = model[ci][1]
            try:
                w.enqueue(x=5)
                v = w.next_result()
            except Hang:
                raise
            except Exception as e:  # noqa
                return "c18.worker-in-context-fails(%s)" % type(e).__name__
            if v != ("ctx", tag, 5):
                return "c18.worker-does-not-run-the-context-target-with-its-defaults"
            workers.append((w, ci, tag))
    if W.server_actor.state in ("done", "zombie"):
        return "c18.server-terminated"
    # workers of a context that was never deleted keep doing the context's work
    for (w, ci, tag) in workers:
        if ci in model and model[ci][1] == tag:
            try:
                w.enqueue(x=7)
                v = w.next_result()
            except Hang:
                raise
            except Exception as e:  # noqa
                return "c18.worker-of-a-live-context-stopped-working(%s)" % type(e).__name__
            if v != ("ctx", tag, 7):
                return "c18.worker-of-a-live-context-gives-wrong-result"
    # every context in the model must still be intact: a worker created in it runs the first registration's target
    for i, (ctx, tag) in sorted(model.items()):
        try:
            w = PersistentRemoteWorker(None, host=wsim.SERVER_ADDR, context=i)
            v = w.call(x=6)
        except Hang:
            raise
        except Exception as e:  # noqa
            return "c18.registered-context-unusable(%s)" % type(e).__name__
        if v != ("ctx", tag, 6):
            return "c18.first-registration-not-intact"
    return None


_params = OrderedDict([("n", (0, NOPS))] + [x for j in range(1, NOPS + 1) for x in (("o%d" % j, (0, len(OPS) - 1)), ("i%d" % j, (0, 2)))])

_FUNCS = ["pyworkers.remote_server:RemoteServer.run", "pyworkers.remote_context:RemoteContext.__init__", "pyworkers.remote_context:RemoteContext._try_del",
          "pyworkers.remote_context:RemoteContext.__getstate__", "pyworkers.remote_context:RemoteContext.__setstate__",
          "pyworkers.remote_context:RemoteContext._create_worker", "pyworkers.remote_context:RemoteContextWorker.do_work",
          "pyworkers.remote_context:RemoteContext.wait", "pyworkers.remote_context:RemoteContext.terminate",
          "pyworkers.persistent_process:PersistentProcessWorker.do_work", "pyworkers.remote:RemoteWorker.__setstate__"]

H_SEQ = Harness(
    "seq", "vf.props.c18:h_seq", _params,
    tiers={
        "quick": {"ranges": {"n": (0, 4), "i1": (0, 1), "i2": (0, 1), "i3": (0, 1), "i4": (0, 1)}, "fixed": {"o5": 0, "i5": 0, "o6": 0, "i6": 0},
                  "partition": ["n", "o1", "o2"], "timeout": 300,
                  # four-step histories only over one id and starting with a registration (e.g. create, worker, worker, delete)
                  "filter": (lambda f: f["n"] <= 3 or (f["o1"] == 0 and f["o2"] in (1, 2))),
                  "extra_pre": ["n <= 3 or (i1 == 0 and i2 == 0 and i3 == 0 and i4 == 0)"],
                  "twin_fixed": {"n": 3, "o1": 0, "o2": 2}},
        "thorough": {"ranges": {"n": (0, 5), "i1": (0, 1), "i2": (0, 1), "i3": (0, 1), "i4": (0, 1), "i5": (0, 1)}, "fixed": {"o6": 0, "i6": 0},
                     "partition": ["n", "o1", "o2", "o3"], "timeout": 2400,
                     "extra_pre": ["n <= 4 or (i1 == 0 and i2 == 0 and i3 == 0 and i4 == 0 and i5 == 0)"],
                     "twin_fixed": {"n": 3, "o1": 0, "o2": 2, "o3": 1}},
    },
    functions=_FUNCS,
)

SPEC = PropSpec(
    "C18", [H_SEQ],
    assumptions=[
        "simulation model of C01 with the real RemoteServer, context helper processes and backends as actors",
        "dictionary model: id -> generation tag of the registration; a worker started in context i must return the target applied with that tag",
        "after a delete 8 model seconds pass before the context's workers are required to be dead",
    ],
    outside=["sequences longer than 5 operations / more than 3 ids", "concurrent clients"],
    stubs=["vf/simos.py"],
    technique="CrossHair/z3 bounded symbolic execution over a deterministic simulation, checked against a dictionary model",
)
