"""C20 — creating a worker returns a usable worker or raises; it never hangs.

Simulation: (a) process kinds whose child is killed at its k-th start-up injection point; (b) remote
kinds against the real RemoteServer whose backend child or whose server process is killed at a
landing point; (c) remote kinds against a scripted server that cuts its two handshake frames at
every byte offset (FIN/RST), refuses the control connection, or closes at each protocol step;
(d) unknown context id; (e) nobody listening."""
import struct
from collections import OrderedDict

import pyworkers.remote as remote
from pyworkers.remote import send_msg
from pyworkers.worker import Worker
from pyworkers.remote_server import RemoteServer

from .. import wsim, targets as T, vos, simos, inject, sim as simmod
from ..vos import Hang, Killed
from ..rt import Outcome, ev, notrace, conc
from ..xh import Harness
from ..main import PropSpec

SCRIPT_ADDR = ("127.0.0.1", 60007)


def frame_of(obj):
    cap = vos.FakeSock()
    send_msg(cap, obj)
    return bytes(cap.out)


CTRL_FRAME_LEN = len(frame_of(("127.0.0.1", 50001)))
INFO_FRAME_LEN = len(frame_of(("vm", 12345, 67, 70067)))


def scripted_server(W, step, offset, rst):
    """A peer that follows the server side of the handshake up to ``step`` and then fails."""
    s = W.sim
    sockmod = remote.socket

    def end(sock):
        if rst:
            sock.setsockopt(sockmod.SOL_SOCKET, sockmod.SO_LINGER, struct.pack("ii", 1, 0))
        sock.close()

    def read_frame(sock):
        hdr = b""
        while len(hdr) < 4:
            c = sock.recv(4 - len(hdr))
            if not c:
                return None
            hdr += c
        (n,) = struct.unpack("!I", hdr)
        body = b""
        while len(body) < n:
            c = sock.recv(n - len(body))
            if not c:
                return None
            body += c
        return body

    def main():
        lst = sockmod.socket(sockmod.AF_INET, sockmod.SOCK_STREAM)
        lst.bind(SCRIPT_ADDR)
        lst.listen()
        cli, _ = lst.accept()
        if step == 0:
            return end(cli)
        read_frame(cli)
        if step == 1:
            return end(cli)
        read_frame(cli)
        ctrl = sockmod.socket(sockmod.AF_INET, sockmod.SOCK_STREAM)
        ctrl.bind(("127.0.0.1", 0))
        addr = ctrl.getsockname()
        if step != 3:
            ctrl.listen()
        fr = frame_of(addr)
        if step == 2:
            cli.sendall(fr[:min(offset, len(fr) - 1)])
            return end(cli)
        cli.sendall(fr)
        if step == 3:
            ctrl.close()
            s.sleep(1)
            return end(cli)
        c2, _ = ctrl.accept()
        info = frame_of(("vm", 4242, 77, 70077))
        if step == 4:
            c2.sendall(info[:min(offset, len(info) - 1)])
            end(c2)
            return end(cli)
        c2.sendall(info)
        # step 5: a complete handshake; the "child" then ends at once
        send_msg(cli, (True, None))
        send_msg(cli, None)
        cli.close()
        c2.close()
    pid = s.new_pid()
    a = s.spawn(main, "scripted-server", pid=pid, kind="server")
    s.yield_()
    return a


def registered(w):
    return any(x is w for x in Worker._active_children)


def settle(W):
    try:
        W.sim.sleep(30)
    except (Hang, Killed):
        pass


def live_children(W, exclude=()):
    return [pid for pid, p in W.sim.procs.items() if not p.exited and pid not in exclude]


PKS = 20        # statements of the constructing thread inside _start() at which it may be slow (the forwarding thread runs meanwhile)


def _slow_caller(W, pk):
    if pk:
        wsim.ParentDelay(W, "._start:", pk - 1, delay=2.0)


def h_start(scn, kind, k, step, offset, rst, pk=0):
    with notrace():
        scn_ = conc(scn, 6)
        pk_ = conc(pk, PKS + 1) if scn_ >= 3 else 0
        kind_ = conc(kind, 2)
        rst_ = conc(rst, 2)
        T.reset()
        label = ["scn%d" % scn_]
        W = None
        try:
            if scn_ == 0:         # process kinds, child killed at start-up point k
                kk = [1, 4][kind_]
                k_ = conc(k, KPROC + 1)
                W = wsim.World()
                L = wsim.Landing(W, kk, k_, action="kill")
                sig, inter = attempt(W, lambda: W.make(kk, T.work, args=[0, 1]), "process-child-killed-at-startup")
            elif scn_ == 1:       # remote kinds, backend killed at start-up point k
                kk = [2, 5][kind_]
                k_ = conc(k, KBACK + 1)
                W = wsim.World(server=True)
                L = wsim.Landing(W, kk, k_, action="kill")
                sig, inter = attempt(W, lambda: W.make(kk, T.work, args=[0, 1]), "backend-killed-at-startup")
            elif scn_ == 2:       # remote kinds, server process killed at its k-th point while serving the request
                kk = [2, 5][kind_]
                k_ = conc(k, KSRV + 1)
                W = wsim.World(server=True)
                L = wsim.Landing(W, kk, k_, action="kill", select=lambda a: a.kind == "server")
                sig, inter = attempt(W, lambda: W.make(kk, T.work, args=[0, 1]), "server-killed-during-handshake")
            elif scn_ == 3:       # scripted server
                kk = [2, 5][kind_]
                step_ = conc(step, 6)
                off_ = conc(offset, max(CTRL_FRAME_LEN, INFO_FRAME_LEN)) if step_ in (2, 4) else 0
                W = wsim.World(parent_points=bool(pk_))
                _slow_caller(W, pk_)
                scripted_server(W, step_, off_, rst_)
                label.append("step%d" % step_)
                sig, inter = attempt(W, lambda: wsim.KINDS[kk](T.work, args=[0, 1], host=SCRIPT_ADDR),
                                     "scripted-server-step-%d" % step_, must_fail=(step_ != 5))
            elif scn_ == 4:       # unknown context id
                kk = [2, 5][kind_]
                W = wsim.World(server=True, parent_points=bool(pk_))
                _slow_caller(W, pk_)
                sig, inter = attempt(W, lambda: wsim.KINDS[kk](None, host=wsim.SERVER_ADDR, context=99), "unknown-context-id", must_fail=True)
            else:                 # nobody listening
                kk = [2, 5][kind_]
                W = wsim.World(parent_points=bool(pk_))
                _slow_caller(W, pk_)
                sig, inter = attempt(W, lambda: wsim.KINDS[kk](T.work, args=[0, 1], host=wsim.SERVER_ADDR), "server-unreachable", must_fail=True)
            ev("c20", *label)
            return Outcome(sig, inter, "")
        finally:
            if W is not None:
                errs = W.close()
                if errs:
                    raise RuntimeError("simulation kernel errors: %r" % (errs,))


def attempt(W, ctor, what, must_fail=False):
    try:
        w = ctor()
    except Hang:
        return "c20.constructor-blocks-forever|%s" % what, True
    except Killed:
        return "c20.constructor-kills-the-caller|%s" % what, True
    except Exception as e:  # noqa
        # raised: fine; nothing may be left behind
        settle(W)
        if live_children(W):
            return "c20.failed-construction-leaves-child-process|%s" % what, True
        return None, True
    if must_fail:
        return "c20.constructor-returns-although-start-up-failed|%s" % what, True
    # returned: the id must describe a child that was really started
    host, pid, tid = w.id
    if wsim.is_remote_kind(wsim.KINDS.index(type(w))) and what.startswith("scripted"):
        ok = (pid, tid) == (4242, 77)
    else:
        ok = pid in W.sim.procs and W.sim.procs[pid]._started
    if not ok:
        return "c20.returned-worker-id-does-not-describe-a-started-child|%s" % what, True
    try:
        if not w.wait(timeout=10):
            w.terminate(timeout=5)
    except (Hang, Killed):
        return "c20.returned-worker-cannot-be-waited-for|%s" % what, True
    except Exception:  # noqa
        pass
    return None, False


def _count(kind, select=None):
    T.reset()
    W = wsim.World(server=wsim.is_remote_kind(kind))
    try:
        L = wsim.Landing(W, kind, -1, action="hold", select=select)
        w = W.make(kind, T.work, args=[0, 1])
        n = L.count
        if wsim.is_persistent(kind):
            w.enqueue()
        w.wait(timeout=5)
        return n
    finally:
        W.close()


inject.instrument_all([(RemoteServer, ["run"]), (remote.RemoteWorker, ["__setstate__"])])
KPROC = max(_count(1), _count(4)) + 1
KBACK = max(_count(2), _count(5)) + 1
KSRV = max(_count(2, select=lambda a: a.kind == "server"), _count(5, select=lambda a: a.kind == "server")) + 1

_params = OrderedDict([("scn", (0, 5)), ("kind", (0, 1)), ("k", (0, max(KPROC, KBACK, KSRV))), ("step", (0, 5)),
                       ("offset", (0, max(CTRL_FRAME_LEN, INFO_FRAME_LEN) - 1)), ("rst", (0, 1)), ("pk", (0, PKS))])

_FUNCS = ["pyworkers.remote:RemoteWorker._start", "pyworkers.remote:RemoteWorker._run_frontend", "pyworkers.remote:RemoteWorker.__init__",
          "pyworkers.remote:RemoteWorker.__setstate__", "pyworkers.remote:recv_msg", "pyworkers.remote:send_msg", "pyworkers.remote:sanitize_target_host",
          "pyworkers.persistent_remote:PersistentRemoteWorker.__init__", "pyworkers.process:ProcessWorker._start", "pyworkers.process:ProcessWorker.__init__",
          "pyworkers.worker:Worker.__init__", "pyworkers.remote_server:RemoteServer.run"]

H_START = Harness(
    "start", "vf.props.c20:h_start", _params,
    tiers={
        "quick": {"partition": ["scn", "kind"], "timeout": 300, "twin_fixed": {"scn": 3, "kind": 0},
                  "extra_pre": ["pk == 0 or (scn >= 3 and offset == 0 and rst == 0)"]},
        "thorough": {"partition": ["scn", "kind", "rst", "step"], "timeout": 900, "twin_fixed": {"scn": 3, "kind": 0, "rst": 0, "step": 2},
                     "extra_pre": ["pk == 0 or (scn >= 3 and offset <= 1)"]},
    },
    functions=_FUNCS,
)

SPEC = PropSpec(
    "C20", [H_START],
    assumptions=[
        "pk > 0 (scenarios 3-5): the constructing thread sleeps 2 model seconds at its pk-th statement inside _start(), so the forwarding thread it has "
        "just started runs (and fails its handshake) in between",
        "simulation model of C01; the scripted server sends the two server-to-client frames exactly as the real send_msg produces them and cuts them at a symbolic offset",
        "killing the server process closes its descriptors (FIN); its already spawned backend children are orphans that go on running",
        "'no child left behind' is checked 30 model seconds after a failed construction",
    ],
    outside=["a peer that stays connected and silent forever (no timeout exists in the protocol)", "half-open connections after network partitions"],
    stubs=["vf/simos.py", "scripted server (this file)"],
    technique="CrossHair/z3 bounded symbolic execution over a deterministic simulation of the real worker/server code",
)
