"""C11 — the remote server survives every client failure.

The real RemoteServer.run accept loop (with the real server-side RemoteWorker.__setstate__, control
threads and backend processes) runs in the simulation.  Faulty clients replay a prefix of the byte
stream the real client code produces (cut at a symbolic offset, FIN or RST) or abandon the
control-channel handshake at a symbolic step; afterwards a healthy client must be served, and a
healthy client's worker started before the fault must be undisturbed."""
import struct
from collections import OrderedDict

import pyworkers.remote as remote
from pyworkers.remote import send_msg, recv_msg, RemoteWorker
from pyworkers.persistent_remote import PersistentRemoteWorker
from pyworkers.remote_context import RemoteContext

from .. import wsim, targets as T, vos, simos, sim as simmod
from ..vos import Hang, Killed
from ..rt import Outcome, ev, notrace, conc
from ..xh import Harness
from ..main import PropSpec

REQ = ["worker", "persistent-worker", "context-create", "context-delete", "worker-in-context", "worker-in-unknown-context"]


def frame_of(obj):
    cap = vos.FakeSock()
    send_msg(cap, obj)
    return bytes(cap.out)


class _CtxShell(RemoteContext):
    """A RemoteContext object as the client would send it, without talking to a server."""

    def __init__(self, ctx_id, target, args=None, kwargs=None):
        self._id = ctx_id
        self._target_host = wsim.SERVER_ADDR
        self._target = target
        self._args = args if args is not None else []
        self._kwargs = kwargs if kwargs is not None else {}
        self._extra_state = {}
        self._payload = None
        self._remote = False
        self._from_remote = False
        self._alive = False
        self._worker = None
        self._children = []


def client_stream(req):
    """The bytes a well-behaved client writes on the data connection for this request."""
    if req == 0:
        w = RemoteWorker(T.add, args=[1, 2], run=False, host=wsim.SERVER_ADDR)
        return frame_of((None, True)) + frame_of(w)
    if req == 1:
        w = PersistentRemoteWorker(T.add, args=[1, 2], run=False, host=wsim.SERVER_ADDR)
        return frame_of((None, True)) + frame_of(w)
    if req == 2:
        return frame_of((7, False)) + frame_of(_CtxShell(7, T.add, args=[1, 2]))
    if req == 3:
        return frame_of((7, False)) + frame_of(None)
    w = PersistentRemoteWorker(None, run=False, host=wsim.SERVER_ADDR, context=(7 if req == 4 else 99))
    return frame_of((7 if req == 4 else 99, True)) + frame_of(w)


STREAM_LEN = {}


def stream_len(req):
    if req not in STREAM_LEN:
        W = wsim.World()
        try:
            STREAM_LEN[req] = len(client_stream(req))
        finally:
            W.close()
    return STREAM_LEN[req]


def faulty_client(W, req, cut, rst, ctrl_step):
    """cut < len(stream): send that prefix and vanish.  cut == len: send everything, then abandon the
    control handshake at ctrl_step (0: vanish right away, 1: read the control address then vanish,
    2: connect the control channel then vanish, 3: read the runtime info then vanish)."""
    s = W.sim
    sockmod = remote.socket
    data = client_stream(req)

    def end(sock):
        if rst:
            sock.setsockopt(sockmod.SOL_SOCKET, sockmod.SO_LINGER, struct.pack("ii", 1, 0))
        sock.close()

    def main():
        so = sockmod.socket(sockmod.AF_INET, sockmod.SOCK_STREAM)
        so.connect(wsim.SERVER_ADDR)
        if cut < len(data):
            if cut:
                so.sendall(data[:cut])
            return end(so)
        so.sendall(data)
        if ctrl_step == 0 or req in (2, 3):
            return end(so)
        try:
            addr = recv_msg(so)
        except Exception:  # noqa
            return end(so)
        if ctrl_step == 1:
            return end(so)
        c = sockmod.socket(sockmod.AF_INET, sockmod.SOCK_STREAM)
        try:
            c.connect(addr)
        except Exception:  # noqa
            return end(so)
        if ctrl_step == 2:
            end(c)
            return end(so)
        try:
            recv_msg(c)
        except Exception:  # noqa
            pass
        end(c)
        end(so)
    a = s.spawn(main, "faulty-client", pid=s.new_pid(), kind="client")
    return a


def h_fault(req, cut, rst, ctrl_step, nfaulty, bystander, mode=0):
    with notrace():
        req_ = conc(req, len(REQ))
        mode_ = conc(mode, 2)          # 1: the server was started the command-line way (close_on_none=True: a None header is the shutdown request)
        T.reset()
        n = stream_len(req_)
        cut_ = conc(cut, n + 1)
        rst_, ctrl_, nf_, by_ = conc(rst, 2), conc(ctrl_step, 4), 1 + conc(nfaulty, 2), conc(bystander, 2)
        ev("c11", REQ[req_], cut_ if cut_ < n else "full", rst_, ctrl_, nf_, by_)
        W = wsim.World(server=True, server_kwargs=({"close_on_none": True} if mode_ else {}))
        try:
            sig = _run(W, req_, cut_, rst_, ctrl_, nf_, by_)
        except Hang:
            sig = "c11.healthy-client-blocks-forever"
        finally:
            errs = W.close()
            if errs:
                raise RuntimeError("simulation kernel errors: %r" % (errs,))
        where = "cut-in-stream" if cut_ < n else "control-step-%d" % ctrl_
        return Outcome(None if sig is None else "%s|%s|%s" % (sig, REQ[req_], where), True, "cut=%d/%d" % (cut_, n))


def _run(W, req, cut, rst, ctrl_step, nfaulty, bystander):
    s = W.sim
    by = None
    if req in (3, 4, 5):
        # these requests refer to (or sit next to) a context that exists
        RemoteContext(7, host=wsim.SERVER_ADDR, target=T.add, args=[1, 2])
    ctx_by = None
    if bystander:
        by = PersistentRemoteWorker(T.add, args=[10, 20], host=wsim.SERVER_ADDR)
        by.enqueue(1)
        if by.next_result() != 21:
            return "c11.bystander-broken-before-fault"
        if req == 4:
            # another client's worker living in the same context as the faulty request
            ctx_by = PersistentRemoteWorker(None, host=wsim.SERVER_ADDR, context=7)
            if ctx_by.call(5, 6) != 11:
                return "c11.bystander-broken-before-fault"
    for _ in range(nfaulty):
        a = faulty_client(W, req, cut, rst, ctrl_step)
        s.block(lambda: a.state in ("done", "zombie"), 60, what="faulty-client-done")
        s.sleep(5)
    if W.server_actor.state in ("done", "zombie"):
        e = W.server_actor.exc
        return "c11.server-terminated(%s)" % (type(e).__name__ if e is not None else "returned")
    # a healthy client must now be served
    try:
        w = RemoteWorker(T.add, args=[1, 2], host=wsim.SERVER_ADDR)
    except Hang:
        raise
    except Exception as e:  # noqa
        return "c11.healthy-client-refused(%s)" % type(e).__name__
    if not w.wait(timeout=10):
        return "c11.healthy-worker-does-not-finish"
    if w.has_error is not False or w.result != 3:
        return "c11.healthy-worker-wrong-outcome"
    if by is not None:
        try:
            by.enqueue(2, 3)
            if by.next_result() != 5:
                return "c11.bystander-wrong-result-after-fault"
        except Hang:
            raise
        except Exception as e:  # noqa
            return "c11.bystander-disturbed(%s)" % type(e).__name__
        if not by.wait(timeout=10) or by.has_error is not False:
            return "c11.bystander-did-not-end-normally"
    if ctx_by is not None:
        try:
            if ctx_by.call(7, 8) != 15:
                return "c11.bystander-in-the-same-context-wrong-result"
        except Hang:
            raise
        except Exception as e:  # noqa
            return "c11.bystander-in-the-same-context-disturbed(%s)" % type(e).__name__
    if req in (3, 4, 5) or ctx_by is not None:
        # the context itself must still serve new clients (req 3 deleted it: then a new one can be registered)
        try:
            if req == 3 and False:
                pass
            fresh = PersistentRemoteWorker(None, host=wsim.SERVER_ADDR, context=7) if req in (4, 5) else None
            if fresh is not None and fresh.call(1, 1) != 2:
                return "c11.context-serves-wrong-result-after-fault"
        except Hang:
            raise
        except Exception as e:  # noqa
            if req == 4:
                return "c11.context-refuses-new-workers-after-fault(%s)" % type(e).__name__
    if W.server_actor.state in ("done", "zombie"):
        return "c11.server-terminated-later"
    return None


_params = OrderedDict([("req", (0, len(REQ) - 1)), ("cut", (0, 1200)), ("rst", (0, 1)), ("ctrl_step", (0, 3)), ("nfaulty", (0, 1)), ("bystander", (0, 1)), ("mode", (0, 1))])

_FUNCS = ["pyworkers.remote_server:RemoteServer.run", "pyworkers.remote:RemoteWorker.__setstate__", "pyworkers.remote:RemoteWorker._ctrl_fn_remote",
          "pyworkers.remote:recv_msg", "pyworkers.remote:send_msg", "pyworkers.remote_context:RemoteContext.__setstate__",
          "pyworkers.remote_context:RemoteContext._create_worker", "pyworkers.remote_context:RemoteContextWorker.do_work",
          "pyworkers.remote_pickle:remote_loads", "pyworkers._remote_pickle.state:RemoteState.recreate_obj_and_patch_setstate"]

H_FAULT = Harness(
    "fault", "vf.props.c11:h_fault", _params,
    tiers={
        "quick": {"ranges": {"cut": (0, 1200)}, "fixed": {"nfaulty": 0, "bystander": 1},
                  "extra_pre": ["(req <= 1 and (cut <= 60 or cut % 16 == 0)) or (req >= 2 and (cut <= 24 or cut % 64 == 0))",
                                # command-line mode: cuts inside the request header only
                                "mode == 0 or (cut <= 12 and ctrl_step == 0)"],
                  "partition": ["req", "rst", "ctrl_step"], "filter": (lambda f: f["req"] in (0, 1, 4) or f["ctrl_step"] == 0),
                  "timeout": 300, "twin_fixed": {"req": 0, "rst": 0, "ctrl_step": 0}},
        "thorough": {"partition": ["req", "rst", "nfaulty", "bystander"], "timeout": 2400, "extra_pre": ["mode == 0 or cut <= 40"], "twin_fixed": {"req": 0, "rst": 0, "nfaulty": 0, "bystander": 1}},
    },
    functions=_FUNCS,
)

_MODE_NOTE = ("mode 1: the server runs with close_on_none=True, as 'python -m pyworkers.remote_server' and run_server() start it "
              "(a complete None header is then the shutdown request; a cut connection is not)")

SPEC = PropSpec(
    "C11", [H_FAULT],
    assumptions=[
        _MODE_NOTE,
        "simulation model of C01 with the real RemoteServer as an actor; faulty clients write a prefix of the byte stream produced by the real client-side "
        "code (send_msg of the header and of the worker/context object) and then close (FIN) or reset (RST) the connection, or complete the stream and abandon "
        "the control handshake at one of 4 steps",
        "after each faulty client 5 model seconds pass; then a healthy RemoteWorker round trip must succeed; a persistent worker of another client started "
        "before the fault must keep working",
    ],
    outside=["corrupt (as opposed to cut) streams", "clients that stay connected and silent forever", "real TCP behaviour beyond FIN/RST"],
    stubs=["vf/simos.py", "faulty client (this file)"],
    technique="CrossHair/z3 bounded symbolic execution over a deterministic simulation of the real server code",
)
