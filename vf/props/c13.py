"""C13 — remote_pickle is invisible to code that does not opt in.

Differential harnesses: real remote_pickle (metaclass check, dispatch table, remote_reduce,
RemoteState) vs. the standard pickle module, over generated class chains whose features are
chosen by symbolic integers, over graph shapes, and over a menu of standard-library values.
"""
import array
import collections
import copy
import dataclasses
import datetime
import decimal
import enum
import fractions
import pathlib
import pickle
import re
import uuid
from collections import OrderedDict

import pyworkers.remote_pickle as rp

from . import pk
from ..rt import Outcome, ev, notrace
from ..xh import Harness
from ..main import PropSpec


def _attempt(fn):
    try:
        return ("ok", fn())
    except Warning:
        return ("exc", "Warning")
    except Exception as e:  # noqa
        return ("exc", type(e).__name__)


def _saw_remote():
    for ent in pk.LOG:
        if ent[1] == "gs" and (ent[2] is True or ent[2] == "kw:True"):
            return True
    return False


def _build_chain(marker, levels, gna, slots):
    """Returns (cls or None, status) where status in ok / warned-expected / missing-warning / spurious-warning."""
    base = rp.SupportRemoteGetState if marker else object
    cls = base
    for i, (gs, ss, red) in enumerate(levels):
        _, inconsistent = pk.chain_spec(levels[:i + 1], marker)
        try:
            cls = pk.make_class("L%d" % i, cls, gs=gs, ss=ss, red=red, gna=(gna if i == 0 else 0), slots=slots, first=(i == 0))
        except Warning:
            if marker and inconsistent:
                return None, "warned-expected"
            return None, "spurious-warning"
        if marker and inconsistent:
            return None, "missing-warning"
    return cls, "ok"


def h_chain(marker, g0, s0, r0, g1, s1, r1, g2, s2, r2, gna, slots, remote, proto):
    with notrace():      # symbolic ints are only touched by rt.conc(); everything else is concrete
        return _h_chain(marker, g0, s0, r0, g1, s1, r1, g2, s2, r2, gna, slots, remote, proto)


def _h_chain(marker, g0, s0, r0, g1, s1, r1, g2, s2, r2, gna, slots, remote, proto):
    snap = pk.snapshot()
    try:
        levels = [(g0, s0, r0), (g1, s1, r1), (g2, s2, r2)]
        # concretise the symbolic feature flags by branching (classes need concrete features)
        levels = [(_c(g, 4), _c(s, 2), _c(r, 3)) for (g, s, r) in levels]
        marker, gna, slots, remote = _c(marker, 2), _c(gna, 2), _c(slots, 2), _c(remote, 2)
        proto = max(2, _c(proto, 6))
        ev("chain", marker, str(levels), gna, slots, remote, proto)
        cls, status = _build_chain(marker, levels, gna, slots)
        if status == "warned-expected":
            return Outcome(None, True)
        if status != "ok":
            return Outcome("c13.chain.%s" % status, True)
        opt_in, inconsistent = pk.chain_spec(levels, marker)
        x = pk.new_instance(cls, "x", 5)
        return _differential(x, [x], opt_in, inconsistent, marker, remote, proto, "c13.chain")
    finally:
        pk.restore(snap)


from ..rt import conc as _c


def _differential(g, insts, opt_in, inconsistent, marker, remote, proto, label):
    del pk.LOG[:]
    std = _attempt(lambda: pk.canon(pickle.loads(pickle.dumps(g, proto)), ignore=()))
    _attempt(lambda: copy.deepcopy(g))
    for x in insts:
        _attempt(lambda: copy.copy(x))
    if _saw_remote():
        return Outcome(label + ".std-pickle-saw-remote-flag", True)
    del pk.LOG[:]
    if inconsistent and not marker and remote:
        # rejected every time, not only the first time the class is seen (the type check is cached)
        for attempt, pr in enumerate((proto, proto, 2 if proto != 2 else 3)):
            got = _attempt(lambda: rp.dumps(g, protocol=pr, remote=True))
            if got != ("exc", "Warning"):
                return Outcome(label + (".duck-inconsistent-not-rejected" if attempt == 0 else ".duck-inconsistent-accepted-on-retry"), True)
        return Outcome(None, True)
    if opt_in and remote:
        return Outcome(None, False)      # remote serialisation of opt-in classes is C14's subject
    got = _attempt(lambda: pk.canon(rp.loads(rp.dumps(g, protocol=proto, remote=bool(remote))), ignore=()))
    again = _attempt(lambda: pk.canon(rp.loads(rp.dumps(g, protocol=proto, remote=bool(remote))), ignore=()))
    if again != got:
        return Outcome(label + ".second-round-trip-differs-from-first", True, "first=%r second=%r" % (got, again))
    if _saw_remote():
        return Outcome(label + ".getstate-remote-true-without-opt-in", True)
    if got != std:
        if got[0] == "exc" and std[0] == "ok":
            return Outcome("%s.raises-%s-where-pickle-succeeds" % (label, got[1]), True, "std=%r got=%r" % (std, got))
        if got[0] == "ok" and std[0] == "exc":
            return Outcome("%s.succeeds-where-pickle-raises-%s" % (label, std[1]), True)
        if got[0] == "exc":
            return Outcome("%s.raises-%s-instead-of-%s" % (label, got[1], std[1]), True)
        return Outcome(label + ".graph-differs", True, "std=%r got=%r" % (std, got))
    return Outcome(None, True)


# ---------------------------------------------------------------------------------------------
CLASS_MENU = [
    # (marker, levels) most derived last
    (0, [(0, 0, 0)]),                       # plain object, default pickling
    (0, [(1, 1, 0)]),                       # classic __getstate__/__setstate__
    (0, [(0, 0, 1)]),                       # __reduce__
    (1, [(0, 0, 0), (1, 1, 0)]),            # marker-derived but never remote-aware
    (0, [(2, 1, 0)]),                       # duck-typed opt-in (only exercised with remote=False here)
    (1, [(2, 1, 0), (3, 0, 0)]),            # marker opt-in with **kwargs pass-through
    (0, [(2, 1, 0), (0, 0, 2)]),            # remote-aware base shadowed by __reduce_ex__ => not opt-in
]


def _graph(shape, x, y):
    if shape == 0:
        return x
    if shape == 1:
        return [x, x]
    if shape == 2:
        return {"k": (x, [x])}
    if shape == 3:
        x.child = [x]
        return x
    if shape == 4:
        return [[[(x,)]]]
    if shape == 5:
        x.other = y
        return {"a": x, "b": y, "s": {7}, "f": frozenset([3])}  # single-element sets: CrossHair forks on set iteration order
    if shape == 6:
        lst = []
        t = (lst, x)
        lst.append(t)
        return t
    x.child = {"deep": [(y, {"z": [y]})]}
    return [x, y, x]


def h_shape(cfg, shape, remote, proto):
    with notrace():      # symbolic ints are only touched by rt.conc(); everything else is concrete
        return _h_shape(cfg, shape, remote, proto)


def _h_shape(cfg, shape, remote, proto):
    snap = pk.snapshot()
    try:
        cfg, shape, remote = _c(cfg, len(CLASS_MENU)), _c(shape, 8), _c(remote, 2)
        proto = max(2, _c(proto, 6))
        ev("shape", cfg, shape, remote, proto)
        marker, levels = CLASS_MENU[cfg]
        cls, status = _build_chain(marker, levels, 0, 0)
        if status != "ok":
            return Outcome("c13.shape.class-menu-%s" % status, True)
        opt_in, inconsistent = pk.chain_spec(levels, marker)
        x = pk.new_instance(cls, "x", 1)
        y = pk.new_instance(cls, "y", 2)
        g = _graph(shape, x, y)
        return _differential(g, [x, y], opt_in, inconsistent, marker, remote, proto, "c13.shape")
    finally:
        pk.restore(snap)


# ---------------------------------------------------------------------------------------------
class Color(enum.Enum):
    RED = 1
    BLUE = 2


@dataclasses.dataclass
class Point:
    x: int
    y: list


NT = collections.namedtuple("NT", ["a", "b"])


def module_function(a):
    return a + 1


class ExcWithArgs(Exception):
    def __init__(self, a, b):
        super().__init__(a, b)
        self.a = a


def _menu():
    return [
        ("datetime", datetime.datetime(2020, 1, 2, 3, 4, 5, 6)),
        ("timedelta", datetime.timedelta(days=1, seconds=2)),
        ("date-tz", datetime.datetime(2020, 1, 2, tzinfo=datetime.timezone.utc)),
        ("decimal", decimal.Decimal("1.50")),
        ("enum", Color.BLUE),
        ("dataclass", Point(1, [2, 3])),
        ("namedtuple", NT(1, "b")),
        ("exception", ValueError("bad", 3)),
        ("exception-custom", ExcWithArgs(1, 2)),
        ("function", module_function),
        ("builtin", len),
        ("class", OrderedDict),
        ("regex", re.compile("a+b", re.I)),
        ("union-type", int | str),
        ("complex", complex(1, 2)),
        ("bytes", b"\x00\xff" * 3),
        ("bytearray", bytearray(b"abc")),
        ("range", range(1, 10, 2)),
        ("fraction", fractions.Fraction(1, 3)),
        ("ordereddict", OrderedDict([("a", 1), ("b", [2])])),
        ("defaultdict", collections.defaultdict(list, {"a": [1]})),
        ("deque", collections.deque([1, 2], maxlen=5)),
        ("uuid", uuid.UUID(int=5)),
        ("purepath", pathlib.PurePosixPath("/a/b")),
        ("array", array.array("i", [1, 2, 3])),
        ("ellipsis-notimpl", (Ellipsis, NotImplemented)),
        ("nested", {"k": [1, (2.5, None, True), {"s"}], 3: frozenset([1])}),
    ]


def _same(a, b):
    if type(a) is not type(b):
        return False
    if isinstance(a, BaseException):
        return a.args == b.args and vars(a) == vars(b)
    if isinstance(a, (list, tuple)):
        return len(a) == len(b) and all(_same(p, q) for p, q in zip(a, b))
    if isinstance(a, dict):
        return list(a) == list(b) and all(_same(a[k], b[k]) for k in a)
    try:
        if a == b:
            return True
    except Exception:  # noqa
        pass
    return repr(a) == repr(b)


def h_stdlib(item, wrap, remote, proto):
    with notrace():      # symbolic ints are only touched by rt.conc(); everything else is concrete
        return _h_stdlib(item, wrap, remote, proto)


def _h_stdlib(item, wrap, remote, proto):
    snap = pk.snapshot()
    try:
        menu = _menu()
        item, wrap, remote = _c(item, len(menu)), _c(wrap, 2), _c(remote, 2)
        proto = max(2, _c(proto, 6))
        name, v = menu[item]
        ev("stdlib", name, wrap, remote, proto)
        g = v if not wrap else [v, {"k": v}]
        std = _attempt(lambda: pickle.loads(pickle.dumps(g, proto)))
        got = _attempt(lambda: rp.loads(rp.dumps(g, protocol=proto, remote=bool(remote))))
        if std[0] != got[0]:
            if got[0] == "exc":
                return Outcome("c13.stdlib.%s-raises-%s-where-pickle-succeeds" % (name, got[1]), True)
            return Outcome("c13.stdlib.%s-succeeds-where-pickle-raises" % name, True)
        if std[0] == "exc":
            if std[1] != got[1]:
                return Outcome("c13.stdlib.%s-raises-%s-instead-of-%s" % (name, got[1], std[1]), True)
            return Outcome(None, True)
        if not _same(std[1], got[1]):
            return Outcome("c13.stdlib.%s-value-differs" % name, True, "std=%r got=%r" % (std[1], got[1]))
        if wrap and (got[1][0] is got[1][1]["k"]) != (std[1][0] is std[1][1]["k"]):
            return Outcome("c13.stdlib.%s-sharing-differs" % name, True)
        return Outcome(None, True)
    finally:
        pk.restore(snap)


_FUNCS = ["pyworkers.remote_pickle:SupportRemoteGetStateMeta.__init__",
          "pyworkers.remote_pickle:SupportRemoteGetStateMeta._SupportRemoteGetStateMeta__check_type_cached",
          "pyworkers.remote_pickle:SupportRemoteGetStateMeta.__subclasscheck__",
          "pyworkers.remote_pickle:remote_dumps", "pyworkers.remote_pickle:remote_loads",
          "pyworkers._remote_pickle.remote_pickler_3_6:RemotePickler36.__init__",
          "pyworkers._remote_pickle.remote_pickler_3_6:RemotePickler36.remote_reduce",
          "pyworkers._remote_pickle.remote_pickler_3_6:dyn_dispatch_table.__getitem__",
          "pyworkers._remote_pickle.state:RemoteState.recreate_obj_and_patch_setstate",
          "pyworkers._remote_pickle.state:RemoteState.context.__init__"]

_chain_params = OrderedDict([("marker", (0, 1)), ("g0", (0, 3)), ("s0", (0, 1)), ("r0", (0, 2)),
                             ("g1", (0, 3)), ("s1", (0, 1)), ("r1", (0, 2)),
                             ("g2", (0, 3)), ("s2", (0, 1)), ("r2", (0, 2)),
                             ("gna", (0, 1)), ("slots", (0, 1)), ("remote", (0, 1)), ("proto", (2, 5))])

H_CHAIN = Harness(
    "chain", "vf.props.c13:h_chain", _chain_params,
    tiers={
        # quick: two levels, default protocol; level 2 empty
        "quick": {"fixed": {"g2": 0, "s2": 0, "r2": 0, "proto": 4, "gna": 0, "slots": 0}, "partition": ["marker", "g0", "g1"],
                  "timeout": 200, "twin_fixed": {"marker": 0, "g0": 1, "g1": 0}},
        # thorough: three levels, default protocol, no __getnewargs__/__slots__ (those are crossed with protocols in 'chainx')
        "thorough": {"fixed": {"proto": 4, "gna": 0, "slots": 0}, "partition": ["marker", "g0", "g1", "g2"], "timeout": 1500,
                     "twin_fixed": {"marker": 0, "g0": 1, "g1": 0, "g2": 0}},
    },
    functions=_FUNCS,
)

H_CHAINX = Harness(
    "chainx", "vf.props.c13:h_chain", _chain_params,
    tiers={
        # thorough only: two levels x __getnewargs__ x __slots__ x protocols 2..5
        "thorough": {"fixed": {"g2": 0, "s2": 0, "r2": 0}, "partition": ["marker", "g0", "g1", "gna", "slots"], "timeout": 1500,
                     "twin_fixed": {"marker": 0, "g0": 1, "g1": 0, "gna": 1, "slots": 0}},
    },
    functions=_FUNCS,
)

H_SHAPE = Harness(
    "shape", "vf.props.c13:h_shape",
    OrderedDict([("cfg", (0, len(CLASS_MENU) - 1)), ("shape", (0, 7)), ("remote", (0, 1)), ("proto", (2, 5))]),
    tiers={
        "quick": {"fixed": {"proto": 4}, "partition": ["cfg"], "timeout": 200, "twin_fixed": {"cfg": 0}},
        "thorough": {"partition": ["cfg", "shape"], "timeout": 600, "twin_fixed": {"cfg": 0, "shape": 3}},
    },
    functions=_FUNCS,
)

H_STDLIB = Harness(
    "stdlib", "vf.props.c13:h_stdlib",
    OrderedDict([("item", (0, len(_menu()) - 1)), ("wrap", (0, 1)), ("remote", (0, 1)), ("proto", (2, 5))]),
    tiers={
        "quick": {"fixed": {"proto": 4}, "partition": ["remote", "wrap"], "timeout": 200, "twin_fixed": {"remote": 1, "wrap": 0}},
        "thorough": {"partition": ["remote", "wrap", "proto"], "timeout": 600, "twin_fixed": {"remote": 1, "wrap": 0, "proto": 2}},
    },
    functions=_FUNCS,
)

SPEC = PropSpec(
    "C13", [H_CHAIN, H_CHAINX, H_SHAPE, H_STDLIB],
    assumptions=[
        "class features (per level: __getstate__ kind, __setstate__, __reduce__/__reduce_ex__, __getnewargs__, __slots__, marker vs duck-typed) "
        "are chosen by symbolic integers; classes are built with type() after branching on them; the C pickler sees concrete objects",
        "reference = the standard pickle module on the same interpreter (differential oracle, including exception types)",
        "opt-in / inconsistency reference predicate is a re-statement of the documented rule (pk.chain_spec)",
        "opt-in classes dumped with remote=True are not judged here (C14)",
    ],
    outside=["graphs deeper than 4", "C-implemented classes beyond the menu", "full cross product of chain x shape x stdlib (three separate harnesses)"],
    stubs=[],
    technique="CrossHair/z3 bounded symbolic execution, differential against the standard pickle module",
)


# ---------------------------------------------------------------------------------------------
def h_threads(kind, remote, proto):
    """Graphs without opt-in objects loaded on two threads at once: each load gives what pickle gives."""
    import pickle
    with notrace():
        snap = pk.snapshot()
        try:
            kind_, remote_, proto_ = _c(kind, 3), _c(remote, 2), 2 + _c(proto, 4)
            ev("threads13", kind_, remote_, proto_)
            # kind 0: plain classes / 1: a class with plain __getstate__/__setstate__ / 2: opt-in classes dumped with remote=False
            if kind_ == 0:
                C = pk.make_class("P", object)
            elif kind_ == 1:
                C = pk.make_class("P", object, gs=1, ss=1)
            else:
                C = pk.make_class("P", rp.SupportRemoteGetState, gs=2, ss=1, first=True)
            rem = bool(remote_) and kind_ != 2

            def graph(tag):
                o = pk.new_instance(C, tag, 5)
                o.kid = pk.new_instance(C, tag + "k", 6)
                o.y = pk.Yielder(2)
                o.tail = [1, (2, "x"), {"k": None}]
                return o
            sig = pk.two_thread_loads(lambda: rp.dumps(graph("a"), protocol=proto_, remote=rem), lambda: rp.dumps(graph("b"), protocol=proto_, remote=rem),
                                      lambda d: rp.loads(d), lambda d: rp.loads(d), lambda x, y: x == y)
            if sig == "overlap-not-reached":
                return Outcome(None, False)
            return Outcome(None if sig is None else "c13.threads." + sig, True)
        finally:
            pk.restore(snap)


H_THREADS = Harness("threads", "vf.props.c13:h_threads", OrderedDict([("kind", (0, 2)), ("remote", (0, 1)), ("proto", (0, 3))]),
                    tiers={"quick": {"partition": ["kind"], "timeout": 200, "twin_fixed": {"kind": 0}},
                           "thorough": {"partition": ["kind"], "timeout": 200, "twin_fixed": {"kind": 0}}},
                    functions=_FUNCS)
SPEC.harnesses.append(H_THREADS)
SPEC.assumptions.append("harness 'threads': two loads of graphs without opt-in objects (or with opt-in classes dumped with remote=False) overlap on two "
                        "real OS threads scheduled by vf/sim.py; each must equal its own sequential result")
