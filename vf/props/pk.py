"""Shared support for the remote_pickle properties (C13, C14, C15): generated class chains,
canonical forms of object graphs, registry snapshot/restore."""
import sys
import types

import pyworkers.remote_pickle as rp
from pyworkers._remote_pickle.state import RemoteState

LOG = []          # (tag, 'gs', remote-flag-seen) / (tag, 'ss')

DYN = types.ModuleType("vf_dyn_classes")
sys.modules["vf_dyn_classes"] = DYN

SLOT_NAMES = ("tag", "val", "child", "other", "newargs", "seen_remote", "via_ss", "extra")


def snapshot():
    return (list(rp.SupportRemoteGetStateMeta.supported_classes), rp.SupportRemoteGetStateMeta._cls_check_cache.copy())


def restore(snap):
    rp.SupportRemoteGetStateMeta.supported_classes[:] = snap[0]
    rp.SupportRemoteGetStateMeta._cls_check_cache.clear()
    rp.SupportRemoteGetStateMeta._cls_check_cache.update(snap[1])
    for k in list(vars(DYN)):
        if not k.startswith("__"):
            delattr(DYN, k)
    del LOG[:]
    # a failed loads may leave thread-local frames behind (that is C15's subject, not ours)
    ac = RemoteState._active_contexts
    for a in ("stack", "iter", "unused"):
        if hasattr(ac, a):
            delattr(ac, a)


def _default_state(self):
    return object.__getstate__(self)


def _default_restore(self, state):
    slotstate = None
    if isinstance(state, tuple) and len(state) == 2:
        state, slotstate = state
    if state:
        for k, v in state.items():
            setattr(self, k, v)
    if slotstate:
        for k, v in slotstate.items():
            setattr(self, k, v)


def _rebuild(cls, state):
    o = cls.__new__(cls) if not hasattr(cls, "__getnewargs__") else cls.__new__(cls, "rebuilt")
    _default_restore(o, state)
    return o


def make_class(name, base, gs=0, ss=0, red=0, gna=0, slots=0, first=False):
    """Create one level of a class chain.  May raise Warning (marker metaclass consistency check).

    gs : 0 absent / 1 plain __getstate__(self) / 2 remote-aware (self, remote=False) /
         3 **kwargs pass-through
    ss : __setstate__ defined
    red: 0 none / 1 __reduce__ / 2 __reduce_ex__
    gna: __getnewargs__ + __new__(cls, *args)
    slots: class uses __slots__ (names on the first level, () afterwards)
    """
    ns = {"__module__": "vf_dyn_classes", "__qualname__": name}
    if slots:
        ns["__slots__"] = SLOT_NAMES if first else ()

    if gs == 1:
        def __getstate__(self):
            LOG.append((getattr(self, "tag", None), "gs", None))
            return _default_state(self)
        ns["__getstate__"] = __getstate__
    elif gs == 2:
        def __getstate__(self, remote=False):
            LOG.append((getattr(self, "tag", None), "gs", bool(remote)))
            st = _default_state(self)
            if isinstance(st, dict):
                st = st.copy()      # NB: dict(x) under CrossHair builds a proxy map the C pickler rejects
                st["seen_remote"] = bool(remote)
            elif isinstance(st, tuple) and len(st) == 2 and isinstance(st[1], dict):
                d = st[1].copy()
                d["seen_remote"] = bool(remote)
                st = (st[0], d)
            return st
        ns["__getstate__"] = __getstate__
    elif gs == 3:
        def __getstate__(self, **kwargs):
            LOG.append((getattr(self, "tag", None), "gs", "kw:%s" % (kwargs.get("remote"),)))
            sup = super(cell[0], self).__getstate__
            try:
                return sup(**kwargs)
            except TypeError:
                return sup()
        ns["__getstate__"] = __getstate__
    elif gs == 4:      # remote-aware, non-dict state (needs ss)
        def __getstate__(self, remote=False):
            LOG.append((getattr(self, "tag", None), "gs", bool(remote)))
            d = _default_state(self)
            return ("nd", tuple(sorted(d.items())), bool(remote))
        ns["__getstate__"] = __getstate__
    if ss:
        def __setstate__(self, state):
            if isinstance(state, tuple) and len(state) == 3 and state[0] == "nd":
                for k, v in state[1]:
                    setattr(self, k, v)
                self.seen_remote = state[2]
            else:
                _default_restore(self, state)
            LOG.append((getattr(self, "tag", None), "ss"))
            try:
                self.via_ss = True
            except AttributeError:
                pass
        ns["__setstate__"] = __setstate__
    if red == 1:
        def __reduce__(self):
            return (_rebuild, (type(self), _default_state(self)))
        ns["__reduce__"] = __reduce__
    elif red == 2:
        def __reduce_ex__(self, proto):
            return (_rebuild, (type(self), _default_state(self)))
        ns["__reduce_ex__"] = __reduce_ex__
    if gna:
        def __getnewargs__(self):
            return (getattr(self, "tag", "x"),)

        def __new__(cls, *args):
            o = object.__new__(cls)
            o.newargs = args
            return o
        ns["__getnewargs__"] = __getnewargs__
        ns["__new__"] = __new__
    cell = [None]
    meta = type(base)
    # NB: under CrossHair a direct call ``meta(name, bases, ns)`` is routed to its patched ``type``
    # and skips the metaclass' __init__ (probed); type.__call__ keeps the real protocol.
    cls = type.__call__(meta, name, (base,), ns)
    cell[0] = cls
    setattr(DYN, name, cls)
    return cls


def chain_spec(levels, marker):
    """Reference reading of the documented opt-in rule for a chain given most-derived LAST.

    Returns (opt_in, inconsistent).  Walk from the most derived class towards the base; a class
    with a custom reduce ends the walk; a plain __getstate__ (no 'remote', no **kwargs) blocks
    remote-aware ones above it in the walk (i.e. in its bases): that is the inconsistency.
    """
    blocked = False
    has_remote = False
    inconsistent = False
    for (gs, ss, red) in reversed(levels):
        if red:
            has_remote = False
            break
        if gs in (2, 4):
            if blocked:
                inconsistent = True
                break
            has_remote = True
        elif gs == 1:
            blocked = True
    return has_remote and not inconsistent, inconsistent


def new_instance(cls, tag, val=0):
    if hasattr(cls, "__getnewargs__"):
        o = cls(tag)
    else:
        o = cls.__new__(cls)
    o.tag = tag
    o.val = val
    return o


def _attrs(o):
    d = {}
    if hasattr(o, "__dict__"):
        d.update(o.__dict__)
    for c in type(o).__mro__:
        for s in getattr(c, "__slots__", ()) or ():
            if s in ("__dict__", "__weakref__"):
                continue
            try:
                d[s] = getattr(o, s)
            except AttributeError:
                pass
    return d


def canon(o, memo=None, ignore=("seen_remote",)):
    """Canonical nested-tuple form of a graph, including sharing and cycles."""
    if memo is None:
        memo = {}
    t = type(o)
    if o is None or t in (int, bool, str, bytes, float):
        return (t.__name__, o)
    if t.__module__.startswith("crosshair"):
        return ("int", o)          # symbolic integer leaf: compared later with rt.sym_same
    if id(o) in memo:
        return ("ref", memo[id(o)])
    if t in (list, tuple):
        memo[id(o)] = len(memo)
        return (t.__name__, tuple(canon(x, memo, ignore) for x in o))
    if t is dict:
        memo[id(o)] = len(memo)
        return ("dict", tuple((canon(k, memo, ignore), canon(v, memo, ignore)) for k, v in o.items()))
    if t in (set, frozenset):
        memo[id(o)] = len(memo)
        return (t.__name__, tuple(sorted(repr(canon(x, memo, ignore)) for x in o)))
    if t.__module__ == "vf_dyn_classes":
        memo[id(o)] = len(memo)
        a = _attrs(o)
        return ("obj", t.__name__, tuple((k, canon(a[k], memo, ignore)) for k in sorted(a) if k not in ignore))
    return ("other", t.__name__, repr(o))


def instances(o, memo=None, out=None):
    """All generated-class instances reachable from o (each once)."""
    if memo is None:
        memo, out = set(), []
    if id(o) in memo:
        return out
    memo.add(id(o))
    t = type(o)
    if t in (list, tuple, set, frozenset):
        for x in o:
            instances(x, memo, out)
    elif t is dict:
        for k, v in o.items():
            instances(k, memo, out)
            instances(v, memo, out)
    elif t.__module__ == "vf_dyn_classes":
        out.append(o)
        for v in _attrs(o).values():
            instances(v, memo, out)
    return out


# ---------------------------------------------------------------------------------------------
# two threads load at the same time (C13: graphs without opt-in objects; C15: patched opt-in graphs)
class Yielder:
    """A plain object in thread A's graph: while it is being restored, thread B gets to run (a whole loads call)."""
    hook = [None]

    def __init__(self, n=0):
        self.n = n

    def __setstate__(self, state):
        self.__dict__.update(state)
        h = Yielder.hook[0]
        if h is not None:
            h()


Yielder.__module__ = "vf_dyn_classes"
Yielder.__qualname__ = "Yielder"


def two_thread_loads(make_a, make_b, load_a, load_b, same):
    """make_x() -> bytes to load; load_x(data) -> loaded graph.  The two loads are first run one after the other on one thread
    (reference), then overlapped on two threads of a vf/sim.py simulation: B's complete loads runs while A's is parked inside the
    restoration of its Yielder.  Returns None or a short reason."""
    from .. import sim as simmod
    setattr(DYN, "Yielder", Yielder)
    data_a, data_b = make_a(), make_b()
    Yielder.hook[0] = None
    ref_a, ref_b = canon(load_a(data_a), ignore=()), canon(load_b(data_b), ignore=())
    s = simmod.new_sim()
    out = {}
    try:
        def other():
            try:
                out["b"] = ("ok", canon(load_b(data_b), ignore=()))
            except Exception as e:  # noqa
                out["b"] = ("exc", type(e).__name__)
        b = s.spawn(other, "thread-B")
        b.priority = 1
        fired = [0]

        def hook():
            if s.me() is s.main and not fired[0]:
                fired[0] = 1
                s.yield_()
        Yielder.hook[0] = hook
        try:
            out["a"] = ("ok", canon(load_a(data_a), ignore=()))
        except Exception as e:  # noqa
            out["a"] = ("exc", type(e).__name__)
        Yielder.hook[0] = None
        s.block(lambda: b.state == "done", 5, what="thread-B-done")
    finally:
        Yielder.hook[0] = None
        errs = s.shutdown()
        simmod.CUR[0] = None
    if errs:
        raise RuntimeError("simulation kernel errors: %r" % (errs,))
    if not fired[0]:
        return "overlap-not-reached"
    for k, ref in (("a", ref_a), ("b", ref_b)):
        if k not in out:
            return "thread-%s-never-finished" % k.upper()
        if out[k][0] != "ok":
            return "thread-%s-raises-%s" % (k.upper(), out[k][1])
        if not same(out[k][1], ref):
            return "thread-%s-result-differs-from-its-sequential-result" % k.upper()
    return None
