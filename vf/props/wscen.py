"""Shared simulation scenario for C01 / C03 / C16: one worker of a symbolic kind runs a target with
a symbolic ending; optionally a graceful terminate or a kill lands at the child's k-th
statement-level injection point; the parent then observes the dead worker."""
from .. import wsim, targets as T, vos, sim as simmod
from ..vos import Hang, Killed
from pyworkers.worker import WorkerTerminatedError
from pyworkers.persistent import WorkerClosedError

TMO = 5


def scenario(kind, ending, idx, fault, k, init_state=None, stateful=False, m=0, how=0):
    """fault: 0 none / 1 graceful terminate landing at point k / 2 SIGKILL at point k."""
    T.reset()
    W = wsim.World(server=wsim.is_remote_kind(kind))
    rec = {"kind": kind, "ending": ending, "idx": idx, "fault": fault, "k": k, "events": []}
    w = None
    try:
        L = None
        if fault == 4:
            # a slow child: it sleeps 3 model seconds at its k-th statement while the parent asks it to terminate
            L = wsim.Landing(W, kind, k, action="delay", delay=3.0)
        elif fault == 3:
            # the parent-side forwarding thread of a remote worker is slow at its k-th statement
            L = wsim.Landing(W, kind, k, action="delay", select=wsim.frontend_actor, delay=3.0)
        elif fault:
            L = wsim.Landing(W, kind, k, action=("hold" if fault == 1 else "kill"))
        try:
            if stateful:
                w = T.make_stateful(W, kind, ending, idx, m, init_state)
            else:
                w = W.make(kind, T.work, args=[ending, idx])
        except Hang:
            rec["ctor"] = "hang"
            rec["hang"] = vos.hang_record()
            return rec
        except Exception as e:  # noqa
            rec["ctor"] = "raises"
            rec["ctor_exc"] = e
            return rec
        rec["ctor"] = "ok"
        rec["worker"] = w
        rec["user_state_while_alive"] = w.user_state if (not wsim.is_thread_kind(kind)) else None
        if wsim.is_persistent(kind):
            try:
                w.enqueue()
                rec["enqueued"] = 1
            except WorkerClosedError:
                rec["enqueued"] = 0
        try:
            if fault in (1, 4):
                rec["landed"] = L.wait()
                rec["label"] = L.label
                rec["marks_at_landing"] = list(T.MARKS)
                rec["released_early"] = L.released_by_deadlock
                rec["stalled"] = L.stalled
                if rec["landed"]:
                    rec["user_state_at_landing"] = w.user_state
                rec["term"] = w.terminate(timeout=TMO)
                rec["marks_after_term"] = list(T.MARKS)
            elif fault == 2:
                rec["landed"] = L.wait()
                rec["label"] = L.label
                rec["marks_at_landing"] = list(T.MARKS)
            elif fault == 3:
                rec["early_wait"] = w.wait(timeout=1)
                if not rec["early_wait"]:
                    # a polling caller: what one wait() learnt must not make the next one claim completion too early
                    rec["early_wait"] = w.wait(timeout=0.2)
                rec["landed"] = L.landed
                rec["label"] = L.label
                rec["obs_early"], rec["obs_early_err"] = wsim.observe(w)
                rec["user_state_early"] = w.user_state
                rec["state_log_early"] = list(T.STATE_LOG)
            if L is not None:
                L.release()
            if how == 1 and not wsim.is_persistent(kind):
                # the parent never waits: it polls is_alive() until the worker is gone (no early read of the result by wait())
                for _ in range(12):
                    if not w.is_alive():
                        break
                    W.sim.sleep(1)
                rec["wait"] = not w.is_alive()
            elif how == 2 and not wsim.is_persistent(kind):
                # the child has long ended when the parent calls terminate()
                W.sim.sleep(6)
                rec["wait"] = w.terminate(timeout=TMO)
            else:
                rec["wait"] = w.wait(timeout=TMO)
            if not rec["wait"]:
                rec["term2"] = w.terminate(timeout=TMO)
            rec["dead"] = not w.is_alive()
        except Hang:
            rec["hang"] = vos.hang_record()
            return rec
        except Killed:
            rec["self_killed"] = True
            return rec
        except Exception as e:  # noqa
            rec["api_exc"] = e
            return rec
        if L is not None:
            rec["npoints"] = L.count
        try:
            rec["obs1"], rec["obs1_err"] = wsim.observe(w)
            rec["obs2"], rec["obs2_err"] = wsim.observe(w)
            rec["user_state"] = w.user_state
            rec["state_log"] = list(T.STATE_LOG)
            try:
                w.user_state = "from-parent"
                rec["setter"] = "accepted"
            except RuntimeError:
                rec["setter"] = "RuntimeError"
            except Exception as e:  # noqa
                rec["setter"] = type(e).__name__
            if wsim.is_persistent(kind):
                rec["stream"] = drain(w)
        except Hang:
            rec["hang"] = vos.hang_record()
        rec["marks"] = list(T.MARKS)
        return rec
    finally:
        rec["sim_errors"] = W.close()
        rec.pop("worker", None)


def drain(w, limit=10):
    import queue
    out = []
    for _ in range(limit):
        try:
            out.append(w.next_result())
        except queue.Empty:
            out.append("<end>")
            break
        except (Hang, Killed):
            raise
        except Exception as e:  # noqa
            out.append("<raises-%s>" % type(e).__name__)
            break
    return out


def count_points(kind, ending=0, idx=0):
    """Dry run: number of injection points the child executes without any fault (bounds k)."""
    T.reset()
    W = wsim.World(server=wsim.is_remote_kind(kind))
    try:
        L = wsim.Landing(W, kind, -1, action="hold")
        w = W.make(kind, T.work, args=[ending, idx])
        if wsim.is_persistent(kind):
            w.enqueue()
        w.wait(timeout=TMO)
        return L.count, list(L.labels)
    finally:
        W.close()
