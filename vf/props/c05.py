"""C05 — persistent workers process each enqueue exactly once, in order, with merged args.

Simulation of the three persistent worker classes; the defaults' container/length, default kwargs,
the number of enqueues, each enqueue's argument shape, the read pattern and a final call() are symbolic.
"""
import queue
from collections import OrderedDict

from .. import wsim, targets as T, vos
from ..vos import Hang, Killed
from ..rt import Outcome, ev, notrace, conc
from ..xh import Harness
from ..main import PropSpec
from pyworkers.persistent import WorkerClosedError

# defaults: (container, length); the first default positional is a list so that damage would be visible
def make_defaults(dshape):
    cont, n = dshape % 2, dshape // 2
    vals = [[0], "d1", "d2"][:n]
    return (tuple(vals) if cont else list(vals))


DKW = [None, {"x": [1]}, {"x": [1], "y": 2}]
# per-enqueue shapes: (positionals, kwargs)
SHAPES = [((), {}), (("e0",), {}), (("e0", "e1"), {"x": "ex"}), (("e0", "e1", "e2", "e3"), {}), ((), {"z": 5}), (([7],), {"y": [8]})]


def h_hist(kind, dshape, dkw, n, sh0, sh1, sh2, sh3, sh4, readmode, closemode, docall):
    with notrace():
        kind_ = 3 + conc(kind, 3)
        dshape_, dkw_, n_ = conc(dshape, 8), conc(dkw, 3), conc(n, 6)
        readmode_, closemode_, docall_ = conc(readmode, 2), conc(closemode, 2), conc(docall, 2)
        shapes = [sh0, sh1, sh2, sh3, sh4][:n_]
        shapes = [conc(x, len(SHAPES)) for x in shapes]
        name = wsim.KIND_NAMES[kind_]
        ev("c05", name, dshape_, dkw_, n_, str(shapes), readmode_, closemode_, docall_)
        defaults, dk = make_defaults(dshape_), DKW[dkw_]
        T.reset()
        W = wsim.World(server=wsim.is_remote_kind(kind_))
        try:
            sig = _run(W, kind_, defaults, dk, shapes, readmode_, closemode_, docall_)
        except Hang:
            sig = "c05.blocks-forever"
        finally:
            errs = W.close()
            if errs:
                raise RuntimeError("simulation kernel errors: %r" % (errs,))
        cause = "tuple-defaults" if isinstance(defaults, tuple) and len(defaults) else "list-defaults"
        return Outcome(None if sig is None else "%s|%s|%s" % (sig, cause, name), n_ > 0, "defaults=%r dkw=%r shapes=%r" % (defaults, dk, shapes))


def _run(W, kind, defaults, dk, shapes, readmode, closemode, docall):
    import copy
    w = W.make(kind, T.record, args=copy.deepcopy(defaults), kwargs=copy.deepcopy(dk))
    expected = [T.spec_call(defaults, dk, SHAPES[s][0], SHAPES[s][1]) for s in shapes]
    got = []
    for s in shapes:
        a, k = SHAPES[s]
        try:
            w.enqueue(*copy.deepcopy(a), **copy.deepcopy(k))
        except WorkerClosedError:
            return "c05.enqueue-refused-on-open-worker"
        if readmode == 1:
            try:
                got.append(w.next_result())
            except queue.Empty:
                return "c05.stream-ends-early"
            except Exception as e:  # noqa
                return "c05.next_result-raises-%s" % type(e).__name__
    if docall and readmode == 1:
        # no outstanding results: call(x) must return the target's value for x
        try:
            v = w.call("c0", x="cx")
        except queue.Empty:
            return "c05.call-finds-no-result"
        except Exception as e:  # noqa
            return "c05.call-raises-%s" % type(e).__name__
        if v != T.spec_call(defaults, dk, ("c0",), {"x": "cx"}):
            return "c05.call-wrong-value"
        ncalls = len(shapes) + 1
    else:
        ncalls = len(shapes)
    if closemode == 1:
        w.close()
        try:
            w.enqueue("late")
            return "c05.enqueue-accepted-after-close"
        except WorkerClosedError:
            pass
    if not w.wait(timeout=10):
        return "c05.wait-false-on-cooperative-worker"
    try:
        w.enqueue("late")
        return "c05.enqueue-accepted-after-death"
    except WorkerClosedError:
        pass
    for _ in range(len(shapes) + 2):
        try:
            got.append(w.next_result())
        except queue.Empty:
            break
        except Exception as e:  # noqa
            return "c05.next_result-raises-%s" % type(e).__name__
    else:
        return "c05.stream-too-long"
    try:
        w.next_result()
        return "c05.stream-does-not-end-once"
    except queue.Empty:
        pass
    except Exception as e:  # noqa
        return "c05.next_result-raises-%s-after-end" % type(e).__name__
    if w.has_error is not False:
        return "c05.worker-failed(%s)" % type(w.error).__name__
    if got != expected:
        if len(got) != len(expected):
            return "c05.delivered-count-differs"
        return "c05.wrong-value-or-order"
    if w.result != ncalls:
        return "c05.result-not-number-of-enqueues"
    return None


_params = OrderedDict([("kind", (0, 2)), ("dshape", (0, 7)), ("dkw", (0, 2)), ("n", (0, 5)),
                       ("sh0", (0, len(SHAPES) - 1)), ("sh1", (0, len(SHAPES) - 1)), ("sh2", (0, len(SHAPES) - 1)),
                       ("sh3", (0, len(SHAPES) - 1)), ("sh4", (0, len(SHAPES) - 1)),
                       ("readmode", (0, 1)), ("closemode", (0, 1)), ("docall", (0, 1))])

_FUNCS = ["pyworkers.persistent:PersistentWorker.next_result", "pyworkers.persistent:PersistentWorker.results_iter", "pyworkers.persistent:PersistentWorker.call",
          "pyworkers.persistent_thread:PersistentThreadWorker.do_work", "pyworkers.persistent_thread:PersistentThreadWorker.enqueue",
          "pyworkers.persistent_thread:PersistentThreadWorker._send_result", "pyworkers.persistent_thread:PersistentThreadWorker._cleanup",
          "pyworkers.persistent_thread:PersistentThreadWorker.wait", "pyworkers.persistent_thread:PersistentThreadWorker._release_child",
          "pyworkers.persistent_process:PersistentProcessWorker.do_work", "pyworkers.persistent_process:PersistentProcessWorker.enqueue",
          "pyworkers.persistent_process:PersistentProcessWorker._send_result", "pyworkers.persistent_process:PersistentProcessWorker._cleanup",
          "pyworkers.persistent_process:PersistentProcessWorker.wait", "pyworkers.persistent_process:PersistentProcessWorker._release_child",
          "pyworkers.persistent_remote:PersistentRemoteWorker.do_work", "pyworkers.persistent_remote:PersistentRemoteWorker.enqueue",
          "pyworkers.persistent_remote:PersistentRemoteWorker._send_result", "pyworkers.persistent_remote:PersistentRemoteWorker._cleanup",
          "pyworkers.persistent_remote:PersistentRemoteWorker._fetch_results", "pyworkers.persistent_remote:PersistentRemoteWorker.wait",
          "pyworkers.persistent_remote:PersistentRemoteWorker._release_child"]

H_HIST = Harness(
    "hist", "vf.props.c05:h_hist", _params,
    tiers={
        "quick": {"ranges": {"n": (0, 2), "dkw": (0, 1), "sh1": (0, 3)}, "fixed": {"sh2": 0, "sh3": 0, "sh4": 0, "docall": 1},
                  "partition": ["kind", "dshape", "n"], "timeout": 300,
                  "twin_fixed": {"kind": 1, "dshape": 4}},
        "thorough": {"ranges": {"n": (0, 3)}, "fixed": {"sh3": 0, "sh4": 0, "docall": 1}, "partition": ["kind", "dshape", "dkw", "n"], "timeout": 1500,
                     "twin_fixed": {"kind": 1, "dshape": 4, "dkw": 1, "n": 2}},
    },
    functions=_FUNCS,
)

SPEC = PropSpec(
    "C05", [H_HIST],
    assumptions=[
        "simulation model of C01 (vf/sim.py, vf/simos.py); the parent's history is: n enqueues (reading each result at once or all at the end), "
        "optionally call(), optionally close(), wait(), drain",
        "the target records what it was called with and then damages mutable arguments and overwrites keyword values, so shared defaults would show",
        "reference merge: list(defaults)[0:len(extra)] = extra; {**default_kwargs, **extra_kwargs}, pristine every call",
    ],
    outside=["large results (C02)", "more than 5 enqueues per history", "histories in which the parent blocks on an empty stream with nothing enqueued"],
    stubs=["vf/simos.py"],
    technique="CrossHair/z3 bounded symbolic execution over a deterministic simulation of the real worker code",
)


# ---------------------------------------------------------------------------------------------
# "WorkerClosedError after close/death": the worker dies on its own (its target raises, or its child process is killed) and the
# parent has not asked is_alive()/wait() since; the next enqueue must be refused, not swallowed
def h_death(kind, cause, npre, pause, reads):
    with notrace():
        kind_ = 3 + conc(kind, 3)
        cause_, npre_, pause_, reads_ = conc(cause, 2), conc(npre, 3), conc(pause, 2), conc(reads, 2)
        name = wsim.KIND_NAMES[kind_]
        ev("c05.death", name, cause_, npre_, pause_, reads_)
        if cause_ == 1 and wsim.is_thread_kind(kind_):
            return Outcome(None, False)
        T.reset()
        W = wsim.World(server=wsim.is_remote_kind(kind_))
        try:
            sig = _run_death(W, kind_, cause_, npre_, pause_, reads_)
        except Hang:
            sig = "c05.death.blocks-forever"
        finally:
            errs = W.close()
            if errs:
                raise RuntimeError("simulation kernel errors: %r" % (errs,))
        return Outcome(None if sig is None else "%s|%s|%s" % (sig, ["target-raised", "child-killed"][cause_], name), True)


def _run_death(W, kind, cause, npre, pause, reads):
    s = W.sim
    w = W.make(kind, T.item, args=[0, 7])         # item(i, poison=7): raises on input 7
    for i in range(npre):
        w.enqueue(i)
    got = []
    if cause == 0:
        w.enqueue(7)
        if reads:
            got = list(w.results_iter())          # ends at the end marker the dying worker wrote
            if got != [("item", i) for i in range(npre)]:
                return "c05.death.wrong-results-before-the-failure"
    else:
        if reads:
            got = list(w.results_iter(maxitems=npre))
        pr = s.procs.get(w.pid)
        if pr is None:
            return None
        pr._sigkill()
    s.sleep(1 + 2 * pause)
    for attempt in (1, 2):
        try:
            w.enqueue(99)
        except WorkerClosedError:
            continue
        except (Hang, Killed):
            raise
        except Exception as e:  # noqa
            return "c05.death.enqueue-raises-%s" % type(e).__name__
        return "c05.death.enqueue-%d-accepted-by-a-dead-worker" % attempt
    if not w.wait(timeout=10):
        return "c05.death.wait-false-on-dead-worker"
    return None


H_DEATH = Harness(
    "death", "vf.props.c05:h_death", OrderedDict([("kind", (0, 2)), ("cause", (0, 1)), ("npre", (0, 2)), ("pause", (0, 1)), ("reads", (0, 1))]),
    tiers={"quick": {"partition": ["kind", "cause"], "timeout": 200, "twin_fixed": {"kind": 1, "cause": 0}},
           "thorough": {"partition": ["kind", "cause"], "timeout": 200, "twin_fixed": {"kind": 1, "cause": 0}}},
    functions=_FUNCS,
)
SPEC.harnesses.append(H_DEATH)
SPEC.assumptions.append("harness 'death': the worker dies on its own (poison input / SIGKILL of its child) after 0-2 answered inputs; the parent reads the "
                        "stream or not, lets 1 or 3 model seconds pass and enqueues twice without having called is_alive() or wait() since")
