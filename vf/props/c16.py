"""C16 — user_state is synchronised child-to-parent at end of life, and only then.

Simulation scenario of C01 with workers whose run() assigns user_state m times before doing the
work; plus a restart chain for the persistent kinds."""
from collections import OrderedDict

from .. import wsim, targets as T
from ..rt import Outcome, ev, notrace, conc
from ..xh import Harness
from ..main import PropSpec
from . import wscen
from .c01 import KMAX, _FUNCS
from pyworkers.worker import WorkerTerminatedError

INIT = [None, 7, {"k": [1, 2]}, T.Obj(5)]
ENDS = [(0, 1), (1, 0)]            # return 0 / raise ValueError


def judge(rec, kind, init, m, fault):
    if rec.get("ctor") != "ok" or "hang" in rec or "api_exc" in rec or rec.get("self_killed"):
        return None, False
    thread = wsim.is_thread_kind(kind)
    if not thread and fault == 1 and rec.get("landed") and not rec.get("released_early"):
        # the child is parked somewhere in its run loop, still alive: the parent must still see the initial state
        seen = rec.get("user_state_at_landing", "<unset>")
        if seen != "<unset>" and not (seen == init and type(seen) is type(init)):
            return "c16.parent-sees-child-state-while-alive", True
    if fault == 3 and rec.get("obs_early") is not None and not rec.get("obs_early_err"):
        # the parent looked while the forwarding thread was still busy: if the worker is reported dead with a
        # reported outcome, the state must already be the child's last one
        ea, ehe, eres, eerr = rec["obs_early"]
        if (ea is False or rec.get("early_wait") is True) and (ehe is False or (ehe is True and eerr is not None)):
            assigned = [v for (what, v) in rec.get("state_log_early", []) if what == "assigned"]
            want = assigned[-1] if assigned else init
            got = rec.get("user_state_early")
            if not (got == want and type(got) is type(want)):
                return "c16.worker-reported-dead-before-its-state-arrived", True
    if not rec.get("dead") or rec.get("obs1") is None:
        return None, False
    alive, he, res, err = rec["obs1"]
    reported = (he is False) or (he is True and err is not None)
    if not reported:
        m0 = rec.get("marks_at_landing") or []
        if not thread and fault == 1 and rec.get("landed") and not rec.get("released_early") and "return" in m0 and "exit" in m0:
            # the target had returned on its own when the graceful request landed: whatever the child then reports (its own
            # result or the termination), it does report, and the report carries the final state
            return "c16.final-state-lost-although-the-target-had-returned", True
        return None, False
    assigned = [v for (what, v) in rec.get("state_log", []) if what == "assigned"]
    want = assigned[-1] if assigned else init
    got = rec.get("user_state")
    if not (got == want and type(got) is type(want)):
        if fault == 4 and got == (False, None):
            # the server's forced terminate wrote its fabricated result after the child's own result frame
            return "c16.forced-terminate-result-read-as-user-state", True
        return "c16.parent-state-not-last-child-state", True
    if rec.get("setter") != "RuntimeError":
        return "c16.parent-assignment-not-rejected", True
    return None, bool(assigned)


def make_h(kind):
    def h(init, end, m, fault, k):
        with notrace():
            init_, end_, m_, fault_ = conc(init, len(INIT)), conc(end, len(ENDS)), conc(m, 4), conc(fault, 4)
            if fault_ >= 2:
                fault_ += 1         # 0 none / 1 graceful terminate at child point k / 3 slow forwarding thread / 4 slow child + terminate
            k_ = conc(k, KMAX[kind] + 12) if fault_ else 0
            ev("c16", wsim.KIND_NAMES[kind], init_, end_, m_, fault_, k_)
            rec = wscen.scenario(kind, ENDS[end_][0], ENDS[end_][1], fault_, k_, init_state=INIT[init_], stateful=True, m=m_)
            if rec["sim_errors"]:
                raise RuntimeError("simulation kernel errors: %r" % (rec["sim_errors"],))
            sig, interesting = judge(rec, kind, INIT[init_], m_, fault_)
            if sig is not None:
                sig = "%s|%s" % (sig, wsim.KIND_NAMES[kind])
            return Outcome(sig, interesting, "label=%s obs=%r state=%r log=%r" % (rec.get("label"), rec.get("obs1"), rec.get("user_state"), rec.get("state_log")))
    h.__name__ = "h_%s" % wsim.KIND_NAMES[kind]
    return h


h_thread, h_process, h_remote, h_pthread, h_pprocess, h_premote = [make_h(k) for k in range(6)]


# ---- restart chain (persistent kinds) -------------------------------------------------------------
def h_restart(kind, init, m, chain, pre=0):
    with notrace():
        kind_ = 3 + conc(kind, 3)
        init_, m_, chain_ = conc(init, len(INIT)), conc(m, 4), 1 + conc(chain, 3)
        pre_ = conc(pre, 3)
        ev("c16r", wsim.KIND_NAMES[kind_], init_, m_, chain_)
        T.reset()
        W = wsim.World(server=wsim.is_remote_kind(kind_))
        try:
            w = T.make_stateful(W, kind_, 0, 1, m_, INIT[init_])
            expect_initial = INIT[init_]
            for inc in range(chain_):
                del T.STATE_LOG[:]
                w.enqueue()
                try:
                    w.next_result()
                except Exception as e:  # noqa
                    return Outcome("c16.restart.next_result-raises-%s|%s" % (type(e).__name__, wsim.KIND_NAMES[kind_]), True)
                first = [v for (what, v) in T.STATE_LOG if what == "initial"]
                if not first or not (first[0] == expect_initial and type(first[0]) is type(expect_initial)):
                    return Outcome("c16.restart.incarnation-does-not-start-from-synchronised-state|%s" % wsim.KIND_NAMES[kind_], True,
                                   "incarnation %d saw %r expected %r" % (inc, first, expect_initial))
                assigned = [v for (what, v) in T.STATE_LOG if what == "assigned"]
                expect_initial = assigned[-1] if assigned else expect_initial
                if pre_ == 1:
                    # the user terminates the worker explicitly (gracefully) and restarts it afterwards
                    w.terminate(timeout=5)
                elif pre_ == 2:
                    # the worker ends on its own and the user notices through is_alive() before restarting it
                    w.close()
                    for _ in range(10):
                        if not w.is_alive():
                            break
                        W.sim.sleep(1)
                w.restart(timeout=5)
            w.wait(timeout=5)
            return Outcome(None, m_ > 0)
        finally:
            errs = W.close()
            if errs:
                raise RuntimeError("simulation kernel errors: %r" % (errs,))


def _harness(kind):
    name = wsim.KIND_NAMES[kind]
    fmax = 3 if wsim.is_remote_kind(kind) else 1
    params = OrderedDict([("init", (0, len(INIT) - 1)), ("end", (0, len(ENDS) - 1)), ("m", (0, 3)), ("fault", (0, fmax)), ("k", (0, KMAX[kind] + 11))])
    quick = {"ranges": {"init": (0, 2), "m": (0, 2)}, "partition": ["fault", "m", "end"], "timeout": 300, "extra_pre": ["fault <= 1 or init == 1"],
             "twin_fixed": {"fault": 0, "m": 2, "end": 0}}
    thorough = {"partition": ["fault", "m", "init", "end"], "timeout": 900, "twin_fixed": {"fault": 0, "m": 2, "init": 1, "end": 0}}
    return Harness(name, "vf.props.c16:h_%s" % name, params, tiers={"quick": quick, "thorough": thorough},
                   functions=_FUNCS + ["pyworkers.worker:Worker.user_state", "pyworkers.persistent:PersistentWorker.restart",
                                       "pyworkers.worker:Worker._get_restart_args", "pyworkers.remote:RemoteWorker._get_restart_args"])


H_RESTART = Harness("restart", "vf.props.c16:h_restart",
                    OrderedDict([("kind", (0, 2)), ("init", (0, len(INIT) - 1)), ("m", (0, 3)), ("chain", (0, 2)), ("pre", (0, 2))]),
                    tiers={"quick": {"partition": ["kind", "pre"], "timeout": 300, "twin_fixed": {"kind": 1, "pre": 0}},
                           "thorough": {"partition": ["kind", "chain", "pre"], "timeout": 600, "twin_fixed": {"kind": 1, "chain": 1, "pre": 0}}},
                    functions=["pyworkers.persistent:PersistentWorker.restart", "pyworkers.worker:Worker._get_restart_args"])

HARNESSES = [_harness(k) for k in range(6)] + [H_RESTART]

SPEC = PropSpec(
    "C16", HARNESSES,
    assumptions=[
        "simulation model of C01; the worker classes are subclasses whose run() assigns user_state m times (vf/targets.py)",
        "'ended in a way that lets it report' is read off the outcome: has_error False, or has_error True with an error object",
        "restart chains: each incarnation processes one item, its first action is to record the user_state it starts from",
        "remote kinds, fault 3: the parent-side forwarding thread sleeps 3 model seconds at its k-th statement (e.g. between receiving the result and the "
        "state); if the parent then sees the worker dead with a reported outcome, user_state must already be synchronised",
        "remote kinds, fault 4: the child sleeps 3 model seconds at its k-th statement while the parent calls terminate(timeout=5) (the server side waits 1 s, "
        "then kills the child and writes a fabricated result on the data connection)",
    ],
    outside=["the window between the frontend thread storing the state and that thread exiting", "SIGKILL endings (nothing can be reported)"],
    stubs=["vf/simos.py"],
    technique="CrossHair/z3 bounded symbolic execution over a deterministic simulation of the real worker code",
)
