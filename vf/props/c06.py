"""C06 — a persistent result stream is a correct prefix and always ends, whatever happens.

Simulation of the three persistent worker classes processing n items; a target exception (poison
item), a graceful terminate or a SIGKILL lands at the child's k-th injection point (the parent-side
forwarding thread of the remote kind is instrumented as well).  The stream is read either through
next_result() or, on a caller-supplied Pipe as the Pool does, raw until end marker / EOF."""
import queue
from collections import OrderedDict

import pyworkers.utils as utils

from .. import wsim, targets as T, vos
from ..vos import Hang, Killed
from ..rt import Outcome, ev, notrace, conc
from ..xh import Harness
from ..main import PropSpec
from pyworkers.persistent import WorkerClosedError

TMO = 5


def count_points(kind, n):
    T.reset()
    W = wsim.World(server=wsim.is_remote_kind(kind))
    try:
        L = wsim.Landing(W, kind, -1, action="hold")
        w = W.make(kind, T.item, args=[0, -1])
        for i in range(n):
            w.enqueue(i)
        w.wait(timeout=TMO)
        return L.count
    finally:
        W.close()


KMAX = {kind: count_points(kind, 4) + 2 for kind in (3, 4, 5)}


PK = 12         # parent-side statements inside terminate() at which the caller may be slow (fault 3)
K3 = 14         # child-side statements after the wake-up at which the child may be slow (fault 3)


def run(kind, n, poison, fault, k, pipemode, pk=0):
    """Returns (signature or None, interesting)."""
    T.reset()
    W = wsim.World(server=wsim.is_remote_kind(kind), parent_points=(fault == 3))
    phase = [""]
    try:
        sig, interesting = _run(W, kind, n, poison, fault, k, pipemode, phase, pk)
        return (None if sig is None else sig + phase[0]), interesting
    finally:
        errs = W.close()
        if errs:
            raise RuntimeError("simulation kernel errors: %r" % (errs,))


def _run(W, kind, n, poison, fault, k, pipemode, phase, pk=0):
    if True:
        if fault == 3:
            # an idle worker is terminated by a caller that is slow at its pk-th statement inside terminate(), while the child is
            # slow at the k-th statement it executes after being woken up (armed below, once the child is idle)
            L = wsim.Landing(W, kind, -1, action="delay", delay=3.0)
        else:
            L = wsim.Landing(W, kind, k, action=("hold" if fault == 1 else "kill")) if fault else None
        kw = {}
        pipe = None
        if pipemode:
            pipe = utils.Pipe()
            kw["results_pipe"] = pipe
        try:
            w = W.make(kind, T.item, args=[0, poison], **kw)
        except (Hang, Killed):
            return None, False                 # construction blocks / fails: C20
        except Exception:  # noqa
            return None, False
        accepted = 0
        for i in range(n):
            try:
                w.enqueue(i)
                accepted += 1
            except WorkerClosedError:
                break
        try:
            if fault == 3:
                W.sim.sleep(3)                      # everything enqueued has been processed; the child waits for input
                L.k = L.count + k
                PD = wsim.ParentDelay(W, ".terminate:", pk, delay=2.0)
                phase[0] = "|idle-worker-terminated-by-a-slow-caller"
                w.terminate(timeout=TMO)
                landed = L.landed and PD.fired
            elif fault:
                landed = L.wait()
                if landed and wsim.is_thread_kind(kind) and getattr(w, "_result", None) is not None:
                    phase[0] = "|landing-after-outcome-recorded"      # i.e. in the finally block of _run / in _cleanup
                if fault == 1:
                    w.terminate(timeout=TMO)
                L.release()
            else:
                landed = False
            if not w.wait(timeout=TMO):
                w.terminate(timeout=TMO)
            if w.is_alive():
                return None, False             # C04
        except Hang:
            return "c06.wait-or-terminate-blocks", True
        except Killed:
            return None, False
        except Exception:  # noqa
            return None, False
        upper = accepted if poison < 0 else min(accepted, poison)
        exact = (fault == 0) or not landed
        # ---- read the stream
        got = []
        try:
            if pipemode:
                end = None
                for _ in range(n + 3):
                    try:
                        msg = pipe.parent_end.recv()
                    except (EOFError, OSError):
                        end = "eof"            # EOF, or the stream ends inside a message (writer killed mid-send)
                        break
                    except Exception as e:  # noqa
                        return "c06.raw-read-raises-%s" % type(e).__name__, True
                    counter, flag, value, wid = msg
                    if not flag:
                        end = "marker"
                        break
                    if counter != len(got) + 1:
                        return "c06.result-counter-wrong", True
                    got.append(value)
                if end is None:
                    return "c06.raw-stream-too-long", True
            else:
                for _ in range(n + 3):
                    try:
                        got.append(w.next_result())
                    except queue.Empty:
                        break
                    except Exception as e:  # noqa
                        return "c06.next_result-raises-%s" % type(e).__name__, True
                else:
                    return "c06.stream-too-long", True
                try:
                    w.next_result()
                    return "c06.stream-resumes-after-end", True
                except queue.Empty:
                    pass
                except Exception as e:  # noqa
                    return "c06.next_result-raises-%s-after-end" % type(e).__name__, True
                if list(w.results_iter()):
                    return "c06.results_iter-yields-after-end", True
        except Hang:
            return ("c06.consumer-never-sees-end-of-stream" if pipemode else "c06.next_result-blocks-after-death"), True
        want = [("item", i) for i in range(len(got))]
        if got != want:
            return "c06.stream-not-a-prefix", True
        if len(got) > upper:
            return "c06.more-results-than-inputs", True
        if exact and len(got) != upper:
            return "c06.results-missing-without-fault", True
        return None, bool(fault and landed) or poison >= 0


def make_h(kind):
    def h(n, poison, fault, k, pipemode, pk=0):
        with notrace():
            n_ = conc(n, 6)
            poison_ = conc(poison, n_ + 1) - 1
            fault_ = conc(fault, 4)
            if fault_ == 3:
                k_, pk_ = conc(k, K3), conc(pk, PK)
            else:
                k_, pk_ = (conc(k, KMAX[kind] + 1) if fault_ else 0), 0
            pipemode_ = conc(pipemode, 2)
            ev("c06", wsim.KIND_NAMES[kind], n_, poison_, fault_, k_, pipemode_, pk_)
            sig, interesting = run(kind, n_, poison_, fault_, k_, pipemode_, pk_)
            if sig is not None:
                sig = "%s|%s" % (sig, wsim.KIND_NAMES[kind])
            return Outcome(sig, interesting, "")
    h.__name__ = "h_%s" % wsim.KIND_NAMES[kind]
    return h


h_pthread, h_pprocess, h_premote = [make_h(k) for k in (3, 4, 5)]

_FUNCS = ["pyworkers.persistent:PersistentWorker.next_result", "pyworkers.persistent:PersistentWorker.results_iter",
          "pyworkers.persistent_thread:PersistentThreadWorker.do_work", "pyworkers.persistent_thread:PersistentThreadWorker._send_result",
          "pyworkers.persistent_thread:PersistentThreadWorker._cleanup", "pyworkers.thread:ThreadWorker._run",
          "pyworkers.persistent_process:PersistentProcessWorker.do_work", "pyworkers.persistent_process:PersistentProcessWorker._send_result",
          "pyworkers.persistent_process:PersistentProcessWorker._cleanup", "pyworkers.process:ProcessWorker._run",
          "pyworkers.persistent_remote:PersistentRemoteWorker.do_work", "pyworkers.persistent_remote:PersistentRemoteWorker._send_result",
          "pyworkers.persistent_remote:PersistentRemoteWorker._cleanup", "pyworkers.persistent_remote:PersistentRemoteWorker._fetch_results",
          "pyworkers.remote:RemoteWorker._run_backend", "pyworkers.utils:PipeEndpoint.get"]


def _harness(kind):
    name = wsim.KIND_NAMES[kind]
    params = OrderedDict([("n", (0, 5)), ("poison", (0, 5)), ("fault", (0, 3)), ("k", (0, KMAX[kind])), ("pipemode", (0, 1)), ("pk", (0, PK - 1))])
    flt = (lambda f: f["fault"] != 2) if wsim.is_thread_kind(kind) else None
    pre3 = ["fault == 3 or pk == 0", "fault != 3 or (poison == 0 and k < %d)" % K3]
    quick = {"ranges": {"n": (0, 2), "poison": (0, 2)}, "partition": ["fault", "n", "pipemode"], "timeout": 300, "twin_fixed": {"fault": 1, "n": 2, "pipemode": 0},
             "extra_pre": pre3}
    thorough = {"ranges": {"n": (0, 4), "poison": (0, 4)}, "partition": ["fault", "n", "pipemode", "poison"], "timeout": 1500,
                "twin_fixed": {"fault": 1, "n": 2, "pipemode": 0, "poison": 0}, "extra_pre": pre3}
    thread = wsim.is_thread_kind(kind)
    quick["filter"] = (lambda f: not (thread and f["fault"] == 2) and not (f["fault"] == 3 and f["n"] != 1))
    thorough["filter"] = (lambda f: not (thread and f["fault"] == 2) and not (f["fault"] == 3 and (f["n"] > 2 or f["poison"] != 0)))
    return Harness(name, "vf.props.c06:h_%s" % name, params, tiers={"quick": quick, "thorough": thorough}, functions=_FUNCS)


HARNESSES = [_harness(k) for k in (3, 4, 5)]

SPEC = PropSpec(
    "C06", HARNESSES,
    assumptions=[
        "simulation model of C01; items are enqueued before the fault lands; the fault lands at the k-th injection point of the child (for the "
        "remote kind the landing actor is the backend process' main thread; the frontend forwarding code is instrumented and runs for real)",
        "fault 3: every item has been processed and the worker is idle; terminate() is called by a caller that sleeps 2 model seconds at its pk-th "
        "statement inside terminate() while the child sleeps 3 model seconds at the k-th statement it executes after the wake-up",
        "the multiplexing consumer is modelled as the Pool reads a pipe: recv() until an end marker or EOFError on a caller-supplied utils.Pipe()",
    ],
    outside=["fault 3 beyond 'caller slow at one statement of terminate(), child slow at one statement after its wake-up'", "sub-statement landing points", "more than 5 items", "kills landing in the parent-side forwarding thread (it is a thread of the parent)"],
    stubs=["vf/simos.py"],
    technique="CrossHair/z3 bounded symbolic execution over a deterministic simulation of the real worker code",
)
