"""C04 — wait/terminate are bounded, truthful, idempotent, even on unresponsive children.

Simulation of all six worker classes with target behaviours {cooperative, swallows every Exception,
blocked in one long system call, interpreter lock held by a C call, already dead, never run}; a
symbolic history of wait/terminate/is_alive/close calls with symbolic timeouts runs on the parent;
durations are measured in model time."""
from collections import OrderedDict

from .. import wsim, targets as T, vos
from ..vos import Hang, Killed
from ..rt import Outcome, ev, notrace, conc
from ..xh import Harness
from ..main import PropSpec

BEH = ["cooperative", "swallows-exceptions", "blocked-in-syscall", "interpreter-lock-held", "already-dead", "never-run", "lingers-after-result", "holds-the-lock-briefly-then-swallows"]
OPS = ["wait", "terminate-force", "terminate-noforce", "is_alive", "close"]
TMOS = [0, 1, 3]
LONG = 500          # model seconds an unresponsive target stays unresponsive
SLACK = 0.5


def child_dead(W, w, kind):
    """Ground truth from the virtual OS."""
    s = W.sim
    if wsim.is_thread_kind(kind):
        ch = getattr(w, "_child", None)
        return ch is None or ch._actor is None or ch._actor.state in ("done", "zombie")
    if kind in (1, 4):
        ch = getattr(w, "_child", None)
        return ch is None or ch.exited
    # remote: the backend process
    procs = [p for pid, p in s.procs.items()]
    return all(p.exited for p in procs)


def make(W, kind, beh):
    if beh == 5:
        return W.make(kind, None)
    if beh in (0, 4):
        tgt, args = T.work, [0, 1]
    elif beh == 1:
        tgt, args = T.swallow, [LONG]
    elif beh == 2:
        tgt, args = T.sleeper, [LONG]
    elif beh == 6:
        tgt, args = T.linger, [LONG]
    elif beh == 7:
        tgt, args = T.gil_then_swallow, [2, LONG]
    else:
        tgt, args = T.gil_sleeper, [LONG]
    w = W.make(kind, tgt, args=args)
    if wsim.is_persistent(kind):
        w.enqueue()
    return w


def h_hist(kind, beh, nops, o1, t1, o2, t2, o3, t3, o4, t4):
    with notrace():
        kind_, beh_, nops_ = conc(kind, 6), conc(beh, len(BEH)), conc(nops, 5)
        ops = [(o1, t1), (o2, t2), (o3, t3), (o4, t4)][:nops_]
        ops = [(conc(o, len(OPS)), conc(t, len(TMOS))) for (o, t) in ops]
        name = wsim.KIND_NAMES[kind_]
        ev("c04", name, BEH[beh_], str(ops))
        T.reset()
        W = wsim.World(server=wsim.is_remote_kind(kind_))
        try:
            sig, interesting = _run(W, kind_, beh_, ops)
        finally:
            errs = W.close()
            if errs:
                raise RuntimeError("simulation kernel errors: %r" % (errs,))
        return Outcome(None if sig is None else "%s|%s|%s" % (sig, BEH[beh_], name), interesting, "ops=%r" % ([(OPS[o], TMOS[t]) for o, t in ops],))


def _run(W, kind, beh, ops):
    s = W.sim
    thread = wsim.is_thread_kind(kind)
    try:
        w = make(W, kind, beh)
    except (Hang, Killed):
        return None, False
    except Exception:  # noqa
        return None, False
    if beh == 4:
        try:
            if not w.wait(timeout=10):
                return None, False
        except (Hang, Killed):
            return None, False
    for (o, ti) in ops:
        op, t = OPS[o], TMOS[ti]
        if thread and op == "terminate-force":
            op = "terminate-noforce"        # force on a thread worker means SIGTERM to the caller's own process (documented)
        dead_before = child_dead(W, w, kind)
        t0 = s.clock
        try:
            if op == "wait":
                r = w.wait(timeout=t)
            elif op == "terminate-force":
                r = w.terminate(timeout=t, force=True)
            elif op == "terminate-noforce":
                r = w.terminate(timeout=t, force=False)
            elif op == "is_alive":
                r = w.is_alive()
            else:
                r = w.close()
        except Hang:
            return "c04.%s-blocks-forever" % op, True
        except Killed:
            return "c04.%s-kills-the-caller" % op, True
        except Exception as e:  # noqa
            return "c04.%s-raises-%s" % (op, type(e).__name__), True
        dt = s.clock - t0
        dead_after = child_dead(W, w, kind)
        if op in ("wait", "terminate-force", "terminate-noforce"):
            if r not in (True, False):
                return "c04.%s-returns-non-bool" % op, True
            if dt > 4 * t + SLACK:
                return "c04.%s-exceeds-timeout-bound" % op, True
            if r is True and not dead_after:
                return "c04.%s-says-dead-but-child-alive" % op, True
            if dead_before:
                if r is not True:
                    return "c04.%s-false-on-dead-worker" % op, True
                if dt > SLACK:
                    return "c04.%s-slow-on-dead-worker" % op, True
            if op == "terminate-force" and not thread and not dead_after:
                return "c04.forced-terminate-leaves-child-alive", True
            if op == "terminate-force" and not thread and r is not True:
                return "c04.forced-terminate-returns-false", True
        elif op == "is_alive":
            if r not in (True, False):
                return "c04.is_alive-returns-non-bool", True
            if r is False and not dead_after:
                return "c04.is_alive-false-but-child-alive", True
            if dead_before and r is True and not wsim.is_remote_kind(kind):
                return "c04.is_alive-true-on-dead-child", True
            if dt > SLACK:
                return "c04.is_alive-blocks", True
        else:
            if dt > SLACK:
                return "c04.close-blocks", True
    return None, beh in (1, 2, 3, 6, 7)


_params = OrderedDict([("kind", (0, 5)), ("beh", (0, len(BEH) - 1)), ("nops", (0, 4)),
                       ("o1", (0, len(OPS) - 1)), ("t1", (0, 2)), ("o2", (0, len(OPS) - 1)), ("t2", (0, 2)),
                       ("o3", (0, len(OPS) - 1)), ("t3", (0, 2)), ("o4", (0, len(OPS) - 1)), ("t4", (0, 2))])

_FUNCS = ["pyworkers.thread:ThreadWorker.wait", "pyworkers.thread:ThreadWorker.terminate", "pyworkers.thread:ThreadWorker.is_alive",
          "pyworkers.process:ProcessWorker.wait", "pyworkers.process:ProcessWorker.terminate", "pyworkers.process:ProcessWorker.is_alive",
          "pyworkers.remote:RemoteWorker.wait", "pyworkers.remote:RemoteWorker.terminate", "pyworkers.remote:RemoteWorker.is_alive",
          "pyworkers.remote:RemoteWorker._ctrl_fn_remote", "pyworkers.remote:RemoteWorker._ctrl_fn_local", "pyworkers.process:ProcessWorker._ctrl_fn",
          "pyworkers.persistent_thread:PersistentThreadWorker.wait", "pyworkers.persistent_thread:PersistentThreadWorker.close",
          "pyworkers.persistent_process:PersistentProcessWorker.wait", "pyworkers.persistent_process:PersistentProcessWorker.close",
          "pyworkers.persistent_process:PersistentProcessWorker._release_child",
          "pyworkers.persistent_remote:PersistentRemoteWorker.wait", "pyworkers.persistent_remote:PersistentRemoteWorker.close",
          "pyworkers.persistent_remote:PersistentRemoteWorker._release_child", "pyworkers.utils:PipeEndpoint.get", "pyworkers.utils:PipeEndpoint.poll"]

H_HIST = Harness(
    "hist", "vf.props.c04:h_hist", _params,
    tiers={
        "quick": {"ranges": {"nops": (0, 2)}, "fixed": {"o3": 0, "t3": 0, "o4": 0, "t4": 0}, "partition": ["kind", "beh"], "timeout": 300,
                  "filter": (lambda f: not (f["beh"] in (3, 6, 7) and f["kind"] in (0, 3))),
                  "twin_fixed": {"kind": 1, "beh": 1}},
        "thorough": {"ranges": {"nops": (0, 3)}, "fixed": {"o4": 0, "t4": 0}, "partition": ["kind", "beh", "nops", "o1"], "timeout": 1500, "filter": (lambda f: not (f["beh"] in (3, 6, 7) and f["kind"] in (0, 3))), "twin_fixed": {"kind": 1, "beh": 1, "nops": 2, "o1": 1}},
    },
    functions=_FUNCS,
)

SPEC = PropSpec(
    "C04", [H_HIST],
    assumptions=[
        "simulation model of C01; durations are model time: every blocking virtual-OS call with a timeout takes exactly its timeout unless released earlier",
        "unresponsive targets stay unresponsive for 500 model seconds: 'swallows' = loop of 1 s sleeps catching Exception; 'blocked in a system call' = one "
        "500 s sleep (no bytecode runs, an asynchronous exception cannot be delivered); 'interpreter lock held' = the same with every other thread of the "
        "child frozen (not applicable to thread workers: the caller shares that interpreter); 'lingers after result' = the target returns at once but leaves a "
        "non-daemon thread behind, so the child process outlives its result by 500 s (process/remote kinds); 'holds the lock briefly' = 2 s with every other "
        "thread frozen, then swallows exceptions (two terminate requests can queue up before the control thread runs); none of them blocks SIGTERM",
        "bound checked: elapsed <= 4 x timeout + 0.5 s; a call on a worker whose child was dead before the call must return True within 0.5 s",
        "truthfulness: True => the child (thread / process / backend process) is really gone; on thread workers terminate(force=True) is replaced by force=False",
    ],
    outside=["wall-clock time", "SIGSTOPped children (a stopped process keeps SIGTERM pending)", "kernel scheduling latency"],
    stubs=["vf/simos.py"],
    technique="CrossHair/z3 bounded symbolic execution over a deterministic simulation of the real worker code",
)
