"""C14 — every opt-in object, wherever it sits, is serialised remotely exactly once and restored.

The arrangement of up to four opt-in instances (who holds whom, through which container, shared
or cyclic) is chosen by symbolic integers; the real remote_reduce / RemoteState code runs with the
real C pickler in between.
"""
from collections import OrderedDict

import pyworkers.remote_pickle as rp

from . import pk
from .c13 import _c, _attempt
from ..rt import Outcome, ev, notrace
from ..xh import Harness
from ..main import PropSpec


def build_classes(marker, ss, nondict):
    """marker: 0 every opt-in class duck-typed / 1 every one marker-derived / 2 root marker-derived, the others duck-typed /
    3 root duck-typed, the others marker-derived.  Returns ((class of the root, class of the others), Plain)."""
    def mk(name, derived):
        base = rp.SupportRemoteGetState if derived else object
        return pk.make_class(name, base, gs=(4 if nondict else 2), ss=(1 if (ss or nondict) else 0), first=True)
    R = mk("R", marker in (1, 2))
    R2 = R if marker in (0, 1) else mk("R2", marker == 3)
    Plain = pk.make_class("Plain", object)
    return (R, R2), Plain


def build_graph(n, p2, p3, hs, top, share, R, Plain):
    inst = [pk.new_instance(R[0] if k == 0 else R[1], "i%d" % k, 10 + k) for k in range(n)]
    parents = [None, 0, p2, p3]
    for k in range(1, n):
        par = inst[min(parents[k], k - 1)]
        h = hs[k]
        if h == 0:
            setattr(par, "c%d" % k, inst[k])
        elif h == 1:
            setattr(par, "l%d" % k, [inst[k]])
        elif h == 2:
            setattr(par, "d%d" % k, {"k": inst[k]})
        elif h == 3:
            setattr(par, "t%d" % k, (inst[k],))
        else:
            pl = pk.new_instance(Plain, "pl%d" % k)
            pl.held = inst[k]
            setattr(par, "o%d" % k, pl)
    last = inst[n - 1]
    if share == 1 and n >= 2:
        inst[0].shared = last
    elif share == 2 and n >= 2:
        last.back = inst[0]
    elif share == 3:
        inst[0].selfref = [inst[0]]
    root = inst[0]
    if top == 0:
        g = root
    elif top == 1:
        g = [root, 7]
    elif top == 2:
        g = {"r": root}
    else:
        g = pk.new_instance(Plain, "top")
        g.held = root
    return g, inst


def check_roundtrip(g, inst, ss, label):
    n = len(inst)
    before = pk.canon(g, ignore=("seen_remote", "via_ss"))
    del pk.LOG[:]
    data = _attempt(lambda: rp.dumps(g))
    if data[0] != "ok":
        return Outcome("%s.dumps-raises-%s" % (label, data[1]), True)
    for k in range(n):
        cnt = sum(1 for e in pk.LOG if e[0] == "i%d" % k and e[1] == "gs")
        rem = sum(1 for e in pk.LOG if e[0] == "i%d" % k and e[1] == "gs" and e[2] is True)
        if cnt != 1 or rem != 1:
            return Outcome("%s.getstate-remote-count-%d-%d" % (label, cnt, rem), True)
    del pk.LOG[:]
    got = _attempt(lambda: rp.loads(data[1]))
    if got[0] != "ok":
        return Outcome("%s.loads-raises-%s" % (label, got[1]), True)
    after = pk.canon(got[1], ignore=("seen_remote", "via_ss"))
    if after != before:
        return Outcome(label + ".graph-shape-differs", True, "before=%r after=%r" % (before, after))
    loaded = [o for o in pk.instances(got[1]) if type(o).__name__ in ("R", "R2")]
    if len(loaded) != n:
        return Outcome(label + ".instance-count-differs", True)
    for o in loaded:
        if "__setstate__" in vars(o):
            return Outcome(label + ".leftover-instance-setstate", True)
        if getattr(o, "seen_remote", None) is not True:
            return Outcome(label + ".state-not-taken-with-remote-true", True)
        if ss:
            c = sum(1 for e in pk.LOG if e[0] == o.tag and e[1] == "ss")
            if c != 1:
                return Outcome("%s.setstate-count-%d" % (label, c), True)
    return Outcome(None, True)


def h_arr(n, p2, p3, h1, h2, h3, top, share, ss, marker, nondict):
    with notrace():
        return _h_arr(n, p2, p3, h1, h2, h3, top, share, ss, marker, nondict)


def _h_arr(n, p2, p3, h1, h2, h3, top, share, ss, marker, nondict):
    snap = pk.snapshot()
    try:
        n = max(1, _c(n, 5))
        # parameters that the arrangement does not use are not looked at (a concretised-but-unused parameter still forks paths)
        p2 = _c(p2, 2) if n >= 3 else 0
        p3 = _c(p3, 3) if n >= 4 else 0
        hs = [0, _c(h1, 5) if n >= 2 else 0, _c(h2, 5) if n >= 3 else 0, _c(h3, 5) if n >= 4 else 0]
        top, share, ss, marker, nondict = _c(top, 4), _c(share, 4), _c(ss, 2), _c(marker, 4), _c(nondict, 2)
        ev("arr", n, p2, p3, str(hs), top, share, ss, marker, nondict)
        # every choice is concrete from here on (no symbolic value reaches pyworkers in this harness),
        # so the opcode tracer is suspended: the solver's job was to enumerate the feasible choices.
        with notrace():
            R, Plain = build_classes(marker, ss, nondict)
            g, inst = build_graph(n, p2, p3, hs, top, share, R, Plain)
            return check_roundtrip(g, inst, ss or nondict, "c14.arr")
    finally:
        pk.restore(snap)


_FUNCS = ["pyworkers._remote_pickle.remote_pickler_3_6:RemotePickler36.remote_reduce",
          "pyworkers._remote_pickle.remote_pickler_3_6:RemotePickler36.__init__",
          "pyworkers._remote_pickle.remote_pickler_3_6:dyn_dispatch_table.__getitem__",
          "pyworkers._remote_pickle.state:RemoteState.recreate_obj_and_patch_setstate",
          "pyworkers._remote_pickle.state:RemoteState.break_patches",
          "pyworkers._remote_pickle.state:RemoteState.child_restored",
          "pyworkers._remote_pickle.state:RemoteState.close_current_ctx",
          "pyworkers._remote_pickle.state:RemoteState.get_current_patches_info",
          "pyworkers._remote_pickle.state:RemoteState.context.__enter__",
          "pyworkers._remote_pickle.state:RemoteState.context.__exit__",
          "pyworkers.remote_pickle:remote_loads", "pyworkers.remote_pickle:remote_dumps"]

_params = OrderedDict([("n", (1, 4)), ("p2", (0, 1)), ("p3", (0, 2)), ("h1", (0, 4)), ("h2", (0, 4)), ("h3", (0, 4)),
                       ("top", (0, 3)), ("share", (0, 3)), ("ss", (0, 1)), ("marker", (0, 3)), ("nondict", (0, 1))])

H_ARR = Harness(
    "arr", "vf.props.c14:h_arr", _params,
    tiers={
        "quick": {"ranges": {"n": (1, 3), "top": (0, 2), "share": (0, 2), "marker": (0, 2)}, "fixed": {"p3": 0, "h3": 0, "nondict": 0},
                  "partition": ["n", "top", "ss", "marker"], "timeout": 300,
                  "twin_fixed": {"n": 2, "top": 0, "ss": 1, "marker": 1}},
        "thorough": {"partition": ["n", "top", "share", "ss", "marker", "nondict"], "timeout": 1800,
                     "filter": (lambda f: not (f["n"] == 4 and f["marker"] >= 2)),      # mixed class kinds: up to three instances
                     "extra_pre": ["n <= 3 or (h1 <= 2 and h2 <= 2 and h3 <= 2)"],
                     "twin_fixed": {"n": 2, "top": 0, "share": 0, "ss": 1, "marker": 1, "nondict": 0}},
    },
    functions=_FUNCS,
)

SPEC = PropSpec(
    "C14", [H_ARR],
    assumptions=[
        "arrangement (parent of each instance, container kind, top-level wrapper, sharing/cycle) and class kind (with/without __setstate__, "
        "marker-derived or duck-typed, dict or non-dict state) are symbolic integers; objects handed to the C pickler are concrete",
        "instances carry distinct tags; the per-instance log of __getstate__(remote=...) / __setstate__ calls is the observation",
    ],
    outside=["more than 4 opt-in instances", "opt-in classes using __slots__/__getnewargs__ (exercised in C13 with remote=False only)"],
    stubs=[],
    technique="CrossHair/z3 bounded symbolic execution over symbolic graph arrangements, real pickle in between",
)


# ---------------------------------------------------------------------------------------------
# states that are falsy but not None: standard unpickling calls __setstate__ for every state that is not None
# ... and states of other shapes (a 2-tuple is what object.__getstate__ returns for classes with __slots__: a class with its own
# __setstate__ must still receive it whole)
FALSY = [None, 0, False, 0.0, "", (), [], {}, {"k": 0},
         (1,), (1, 2), ({"a": 1}, {"b": 2}), (None, {"b": 2}), ({"a": 1}, None), (1, 2, 3), [1, 2], "s", 5, {"a": {"b": 1}}]


def _mk_state_class(name, base, state_idx, log):
    def __getstate__(self, remote=False):
        log.append((name, "gs", bool(remote)))
        return FALSY[state_idx]

    def __setstate__(self, state):
        # remote_reduce hands dict states over as an OrderedDict (a dict subclass): compared as a mapping
        log.append((name, "ss", repr(sorted(state.items())) if isinstance(state, dict) else repr(state)))
        self.restored = True
    ns = {"__module__": "vf_dyn_classes", "__qualname__": name, "__getstate__": __getstate__, "__setstate__": __setstate__}
    cls = type.__call__(type(base), name, (base,), ns)
    setattr(pk.DYN, name, cls)
    return cls


def _failed_load_before(kind):
    """'Loading always succeeds' holds on a thread whatever that thread loaded before, failed loads included."""
    if kind == 1:
        _attempt(lambda: rp.loads(b"garbage"))
    elif kind == 2:
        class _E(Exception):
            pass

        def __getstate__(self, remote=False):
            return {"a": 1}

        def __setstate__(self, st):
            raise _E()
        cls = type.__call__(type(object), "RBoom", (object,), {"__module__": "vf_dyn_classes", "__qualname__": "RBoom",
                                                               "__getstate__": __getstate__, "__setstate__": __setstate__})
        setattr(pk.DYN, "RBoom", cls)
        data = rp.dumps([cls.__new__(cls)])
        _attempt(lambda: rp.loads(data))
        _attempt(lambda: rp.loads(data[:len(data) // 2]))


def h_state(state, marker, pos, pre=0):
    with notrace():
        snap = pk.snapshot()
        try:
            state_, marker_, pos_ = _c(state, len(FALSY)), _c(marker, 2), _c(pos, 3)
            pre_ = _c(pre, 3)
            ev("state", state_, marker_, pos_, pre_)
            import pickle
            _failed_load_before(pre_)
            log_r, log_s = [], []
            base = rp.SupportRemoteGetState if marker_ else object
            R = _mk_state_class("RS", base, state_, log_r)

            class _Twin:         # same shape, never remote-aware: what standard unpickling does with this state
                pass
            Tw = _mk_state_class("TW", object, state_, log_s)
            # strip the 'remote' parameter from the twin so that it is a plain class
            Tw.__getstate__ = (lambda f: (lambda self: f(self)))(Tw.__getstate__)

            def wrap(x):
                return x if pos_ == 0 else ([x, 1] if pos_ == 1 else {"h": (x,)})
            std = _attempt(lambda: pickle.loads(pickle.dumps(wrap(Tw.__new__(Tw)), 4)))
            got = _attempt(lambda: rp.loads(rp.dumps(wrap(R.__new__(R)))))
            if std[0] != "ok":
                return Outcome(None, False)
            if got[0] != "ok":
                return Outcome("c14.state.loads-raises-%s" % got[1], True)
            want_ss = [e[2] for e in log_s if e[1] == "ss"]
            have_ss = [e[2] for e in log_r if e[1] == "ss"]
            if [e for e in log_r if e[1] == "gs"] != [("RS", "gs", True)]:
                return Outcome("c14.state.getstate-remote-not-exactly-once", True)
            if want_ss != have_ss:
                if want_ss and not have_ss:
                    return Outcome("c14.state.setstate-skipped-for-falsy-state", True, "state=%r" % (FALSY[state_],))
                return Outcome("c14.state.restored-differently-from-standard-unpickling", True, "std=%r remote=%r" % (want_ss, have_ss))
            return Outcome(None, True)
        finally:
            pk.restore(snap)


H_STATE = Harness(
    "state", "vf.props.c14:h_state", OrderedDict([("state", (0, len(FALSY) - 1)), ("marker", (0, 1)), ("pos", (0, 2)), ("pre", (0, 2))]),
    tiers={"quick": {"partition": ["marker"], "timeout": 120, "twin_fixed": {"marker": 1}}},
    functions=_FUNCS,
)

SPEC.harnesses.append(H_STATE)
SPEC.assumptions.append("harness 'state', pre > 0: the same thread has made failing loads before (garbage; a class whose __setstate__ raises; a truncated stream)")
SPEC.assumptions.append("harness 'state': classes whose remote state is one of None, 0, False, 0.0, '', (), [], {}, {'k': 0}; the reference is a plain twin class "
                        "through the standard pickle module (BUILD is emitted for every state that is not None)")
