"""C12 — stopping the server reaps its children and every parent finds out.

The server runs as a real RemoteServerProcess (spawn_server) inside the simulation, with 0-3
workers of other clients in mixed states; it is stopped by terminate() or by SIGTERM.  Afterwards
every process it spawned must be gone and every parent-side worker must be dead with has_error
True, without the parent blocking."""
from collections import OrderedDict

import pyworkers.remote_server as rserver
from pyworkers.remote import RemoteWorker
from pyworkers.persistent_remote import PersistentRemoteWorker
from pyworkers.remote_context import RemoteContext
from pyworkers.worker import WorkerTerminatedError

from .. import wsim, targets as T, vos, simos, sim as simmod
from ..vos import Hang, Killed
from ..rt import Outcome, ev, notrace, conc
from ..xh import Harness
from ..main import PropSpec

STATES = ["running-cooperative", "swallowing", "idle-persistent", "finished", "idle-in-context", "finished-in-context"]
LONG = 300


def make_child(addr, st):
    if st == 0:
        return RemoteWorker(T.loop, args=[LONG], host=addr)
    if st == 1:
        return RemoteWorker(T.swallow, args=[LONG], host=addr)
    if st == 2:
        w = PersistentRemoteWorker(T.add, args=[1, 2], host=addr)
        w.enqueue(5)
        w.next_result()
        return w
    if st == 3:
        w = RemoteWorker(T.add, args=[1, 2], host=addr)
        w.wait(timeout=10)
        return w
    w = PersistentRemoteWorker(None, host=addr, context=7)
    w.enqueue(x=1)
    w.next_result()
    if st == 5:
        # a worker of the context that has already been closed and has ended (it stays in the context's bookkeeping)
        w.close()
        w.wait(timeout=10)
    return w


def h_stop(trigger, n, s1, s2, s3):
    with notrace():
        trigger_, n_ = conc(trigger, 3), conc(n, 4)
        states = [conc(x, len(STATES)) for x in (s1, s2, s3)[:n_]]
        ev("c12", trigger_, str(states))
        T.reset()
        W = wsim.World()
        try:
            sig = _run(W, trigger_, states)
        except Hang:
            sig = "c12.parent-blocks-forever"
        except Killed:
            sig = "c12.parent-killed"
        finally:
            errs = W.close()
            if errs:
                raise RuntimeError("simulation kernel errors: %r" % (errs,))
        how = ["terminate", "sigterm", "short-terminate-then-sigterm"][trigger_]
        return Outcome(None if sig is None else "%s|%s" % (sig, how), bool(states), "states=%r" % ([STATES[x] for x in states],))


def _run(W, trigger, states):
    s = W.sim
    srv = rserver.spawn_server(("127.0.0.1", 60006))
    addr = srv.addr
    if addr is None:
        return "c12.server-did-not-start"
    if 4 in states or 5 in states:
        RemoteContext(7, host=addr, target=T.ctx_target, args=["g"])
    workers = [(make_child(addr, st), st) for st in states]
    before = {id(w): (w.has_error, w.result) for (w, st) in workers if st in (3, 5)}
    server_children = [p for pid, p in s.procs.items() if pid != srv.pid]
    t0 = s.clock
    if trigger == 0:
        ok = srv.terminate(timeout=5)
        if ok is not True:
            return "c12.server-terminate-returns-%r" % (ok,)
    elif trigger == 2:
        # the usual idiom: ask nicely with a short timeout, then SIGTERM whatever is left (the signal may arrive
        # while the server is in the middle of reaping its children)
        ok = srv.terminate(timeout=0.5, force=False)
        if ok is not True:
            if srv.is_alive():
                simos._deliver_signal(srv.pid, simos._signal.SIGTERM)
            if not srv.wait(timeout=20):
                return "c12.server-survives-sigterm"
    else:
        simos._deliver_signal(srv.pid, simos._signal.SIGTERM)
        if not srv.wait(timeout=20):
            return "c12.server-survives-sigterm"
    if s.clock - t0 > 60:
        return "c12.server-shutdown-takes-too-long"
    s.sleep(20)
    alive = [p.name for p in server_children if not p.exited]
    if alive:
        return "c12.child-process-outlives-the-server"
    for (w, st) in workers:
        t1 = s.clock
        if not w.wait(timeout=10):
            return "c12.parent-side-worker-not-dead|%s" % STATES[st]
        if s.clock - t1 > 30:
            return "c12.parent-side-wait-too-slow|%s" % STATES[st]
        he, res, err = w.has_error, w.result, w.error
        if st in (3, 5):
            if (he, res) != before[id(w)]:
                return "c12.finished-worker-outcome-changed"
            continue
        if he is not True or res is not None:
            return "c12.parent-side-worker-not-failed|%s" % STATES[st]
        if err is not None and not isinstance(err, WorkerTerminatedError):
            return "c12.unexpected-error-%s|%s" % (type(err).__name__, STATES[st])
    return None


_params = OrderedDict([("trigger", (0, 2)), ("n", (0, 3)), ("s1", (0, 5)), ("s2", (0, 5)), ("s3", (0, 5))])

_FUNCS = ["pyworkers.remote_server:RemoteServer.run", "pyworkers.remote_server:RemoteServer.install_handlers", "pyworkers.remote_server:RemoteServer.break_accept",
          "pyworkers.remote_server:RemoteServerProcess.run", "pyworkers.remote_server:RemoteServerProcess._start", "pyworkers.remote_server:RemoteServerProcess._release_self",
          "pyworkers.remote:RemoteWorker.terminate", "pyworkers.remote:RemoteWorker._ctrl_fn_remote", "pyworkers.remote_context:RemoteContext.terminate",
          "pyworkers.remote_context:RemoteContext._create_worker", "pyworkers.remote_context:RemoteContextWorker.do_work",
          "pyworkers.process:ProcessWorker.terminate", "pyworkers.process:ProcessWorker._ctrl_fn", "pyworkers.remote:RemoteWorker._fetch_results",
          "pyworkers.persistent_remote:PersistentRemoteWorker._fetch_results"]

H_STOP = Harness(
    "stop", "vf.props.c12:h_stop", _params,
    tiers={
        "quick": {"ranges": {"n": (0, 2)}, "fixed": {"s3": 0}, "partition": ["trigger", "n"], "timeout": 300, "twin_fixed": {"trigger": 0, "n": 1}},
        "thorough": {"partition": ["trigger", "n", "s1"], "timeout": 1500, "twin_fixed": {"trigger": 0, "n": 2, "s1": 0}},
    },
    functions=_FUNCS,
)

SPEC = PropSpec(
    "C12", [H_STOP],
    assumptions=[
        "simulation model of C01; the server is a real RemoteServerProcess; SIGTERM runs the handler installed by install_handlers in the server's main "
        "thread at its next bytecode boundary (blocking calls are interrupted and resumed); the default action of SIGTERM kills a process at once",
        "'gone shortly afterwards' = exited 20 model seconds after the shutdown returned; parents then wait with a 10 s timeout",
        "child states: running a cooperative loop, swallowing every Exception, idle persistent worker, already finished, idle persistent worker inside a context",
    ],
    outside=["the OS process table itself (process death is the virtual OS' contract)", "shutdown while a worker is being created", "SIGKILL of the server (nothing can run)"],
    stubs=["vf/simos.py"],
    technique="CrossHair/z3 bounded symbolic execution over a deterministic simulation of the real server code",
)
