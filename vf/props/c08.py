"""C08 — Pool failure reports are sound: PoolError only when no worker is left; partial results
are genuine.  Same environment as C07 (vf/poolenv.py), other configurations and oracle."""
from collections import OrderedDict

import pyworkers.pool as poolmod
from pyworkers.pool import Pool, PoolError

from .. import vos, poolenv
from ..rt import Outcome, ev, Sched, notrace, conc
from ..xh import Harness
from ..main import PropSpec
from .c07 import make_pool, expected, multiset_diff, inputs_of, _inner_fn, _FUNCS, NSCHED


def h_report(W, N, E, D, retry, retres, poison, failing, dup, s0, s1, s2, s3, s4, s5, s6, s7, s8, s9, s10, s11, restart=0):
    with notrace():
        return _h_report(W, N, E, D, retry, retres, poison, failing, dup, [s0, s1, s2, s3, s4, s5, s6, s7, s8, s9, s10, s11], restart)


def _after_restart(pool, env, E, retry):
    """restart_workers() after the first run, then another run: every worker is alive again (under a new identity), so PoolError
    is sound only if the deaths of *this* run leave nobody."""
    try:
        pool.restart_workers()
    except Exception as e:  # noqa
        return "c08.after-restart.restart_workers-raises-%s" % type(e).__name__
    env.deaths_left = env.sched.pick(2)
    env.poison = None
    env.lost, env.refused = [], []
    inputs = [100, 101]
    try:
        ret = pool.run(iter(inputs), worker_extra_pending_inputs=E)
    except PoolError as e:
        survivors = [w.idx for w in env.workers if w.alive and w.id not in pool._closed]
        if survivors:
            return "c08.after-restart.poolerror-with-live-worker"
        ret = e.partial_results
        if ret is None:
            return "c08.after-restart.partial-results-missing"
        _, extra = multiset_diff(ret, [poolenv.target(x) for x in inputs])
        return "c08.after-restart.partial-results-not-genuine" if extra else None
    except vos.Hang:
        return "c08.after-restart.blocks-forever"
    except Exception as e:  # noqa
        return "c08.after-restart.raises-%s-in-%s" % (type(e).__name__, _inner_fn(e))
    if ret is None:
        return "c08.after-restart.returns-None"
    missing, extra = multiset_diff(ret, [poolenv.target(x) for x in inputs])
    if extra:
        return "c08.after-restart.result-not-genuine-or-duplicated"
    if missing and retry:
        return "c08.after-restart.missing-result-with-retry"
    return None


def _h_report(W, N, E, D, retry, retres, poison, failing, dup, ss, restart=0):
    out = _h_report1(W, N, E, D, retry, retres, poison, failing, dup, ss, restart)
    return out


def _h_report1(W, N, E, D, retry, retres, poison, failing, dup, ss, restart):
    vos.reset()
    restart = conc(restart, 2)
    W = max(1, conc(W, 4))
    N = conc(N, 7)
    E = conc(E, 3)
    D = conc(D, 4)
    retry, retres = conc(retry, 2), conc(retres, 2)
    poison = conc(poison, N + 1)             # 0 none, i+1: input i kills whoever processes it
    failing = conc(failing, W + 1)           # 0 none, i+1: worker i fails on the first input it processes
    dup = conc(dup, 3)
    env = poolenv.Env(Sched(ss), W, D, poison=(poison - 1 if poison else None), failing=((failing - 1,) if failing else ()))
    ev("report", W, N, E, D, retry, retres, poison, failing)
    pool = make_pool(env, retry=bool(retry))
    delivered = []

    def cb(worker, what, *a):
        if what == "finished":
            delivered.append(a[0])
    try:
        ret = pool.run(iter(inputs_of(N, dup)), worker_extra_pending_inputs=E, return_results=bool(retres), worker_callback=cb)
        kind, val = "ret", ret
    except PoolError as e:
        kind, val = "poolerror", e
    except vos.Hang:
        kind, val = "hang", vos.hang_record()
    except Exception as e:  # noqa
        kind, val = "exc", e
    for e in env.events:
        ev(*e)
    ev(kind)
    interesting = any(e[0] == "dead" for e in env.events)
    exp = expected(N, dup=dup)
    if restart and kind in ("ret", "poolerror"):
        # judged before the first run's own clauses: the first run is judged by the paths with restart == 0
        sig2 = _after_restart(pool, env, E, retry)
        for e in env.events:
            if e[0] == "dead":
                ev(*e)
        if sig2 is not None:
            return Outcome(sig2 + ("|after-failed-run" if kind == "poolerror" else "|after-successful-run"), True)
        return Outcome(None, interesting)
    if kind == "hang":
        return Outcome("c08.report.%s" % ("spins" if "spin" in val[1] else "blocks-forever"), True, str(val))
    if kind == "exc":
        return Outcome("c08.report.raises-%s-in-%s" % (type(val).__name__, _inner_fn(val)), True, repr(val))
    # genuine results, at most one per input (observed through the callback too)
    missing_cb, extra_cb = multiset_diff(delivered, exp)
    if extra_cb:
        return Outcome("c08.report.result-delivered-twice-or-foreign", True, "extra=%r" % (extra_cb,))
    if kind == "poolerror":
        survivors = [w.idx for w in env.workers if w.alive and w.id not in pool._closed]
        if survivors:
            return Outcome("c08.report.poolerror-with-live-worker", True, "survivors=%r retry=%d" % (survivors, retry))
        pr = val.partial_results
        if retres:
            if pr is None:
                return Outcome("c08.report.partial-results-missing", True)
            _, extra = multiset_diff(pr, exp)
            if extra:
                return Outcome("c08.report.partial-results-not-genuine", True, "extra=%r" % (extra,))
        elif pr is not None:
            return Outcome("c08.report.partial-results-despite-return_results-off", True)
        return Outcome(None, True)
    # normal return
    if not retres:
        if val is not None:
            return Outcome("c08.report.returns-value-despite-return_results-off", True)
        got = delivered
    else:
        if val is None:
            if N == 0:
                return Outcome(None, interesting)
            return Outcome("c08.report.returns-None", True)
        got = val
    missing, extra = multiset_diff(got, exp)
    if extra:
        return Outcome("c08.report.result-not-genuine-or-duplicated", True, "extra=%r" % (extra,))
    if retry:
        if missing:
            return Outcome("c08.report.missing-result-with-retry", True, "missing=%r" % (missing,))
        return Outcome(None, interesting)
    # retry off: every missing input was handed (or being handed) to a worker that died before answering it
    gone = [poolenv.target(*inp) for (_, inp) in env.lost] + [poolenv.target(*inp) for (_, inp) in env.refused]
    for m in missing:
        if m not in gone:
            return Outcome("c08.report.input-dropped-without-dead-worker", True, "missing=%r lost=%r" % (m, gone))
    return Outcome(None, interesting)


_params = OrderedDict([("W", (1, 3)), ("N", (0, 6)), ("E", (0, 2)), ("D", (0, 3)), ("retry", (0, 1)), ("retres", (0, 1)),
                       ("poison", (0, 6)), ("failing", (0, 3)), ("dup", (0, 2))] + [("s%d" % i, (0, 5)) for i in range(NSCHED)] + [("restart", (0, 1))])

H_REPORT = Harness(
    "report", "vf.props.c08:h_report", _params,
    tiers={
        "quick": {"ranges": {"W": (1, 2), "N": (0, 3), "E": (0, 1), "D": (0, 1), "poison": (0, 1), "failing": (0, 1), "dup": (0, 1)},
                  "fixed": {"s8": 0, "s9": 0, "s10": 0, "s11": 0},
                  "partition": ["W", "N", "E", "D", "retry", "retres", "dup"], "timeout": 400,
                  "filter": (lambda f: f["dup"] == 0 or (f["N"] in (2, 3) and f["D"] == 1 and f["retres"] == 1)),
                  "extra_pre": ["restart == 0 or (N <= 1 and E == 0 and dup == 0 and retres == 1 and retry == 1 and poison == 0 and failing == 0)"],
                  "twin_fixed": {"W": 2, "N": 3, "E": 1, "D": 1, "retry": 0, "retres": 1, "dup": 0}},
        "thorough": {"ranges": {"W": (1, 3), "N": (0, 4), "E": (0, 2), "D": (0, 2), "poison": (0, 4), "failing": (0, 3), "dup": (0, 2)},
                     "partition": ["W", "N", "E", "D", "retry", "retres", "dup", "restart"],
                     "filter": (lambda f: (f["W"] <= 2 or (f["N"] <= 3 and f["D"] <= 1 and f["E"] <= 1)) and (f["E"] <= 1 or (f["N"] <= 3 and f["D"] <= 1))
                                and (f["D"] <= 1 or f["N"] <= 3) and (f["dup"] == 0 or (f["N"] in (2, 3) and f["D"] == 1 and f["retres"] == 1 and f["W"] == 2))
                                and (f["restart"] == 0 or (f["N"] <= 2 and f["W"] <= 2 and f["D"] <= 1 and f["E"] == 0 and f["dup"] == 0 and f["retres"] == 1 and f["retry"] == 1))),
                     "extra_pre": ["(poison > 1) + (failing > 1) <= 1",
                                   # the largest cells (three workers with a death, or two deaths, on three inputs) keep the quick-tier menus of poison/failing
                                   "(W < 3 and D < 2) or N < 3 or (poison <= 1 and failing <= 1)",
                                   "restart == 0 or (poison <= 1 and failing <= 1)"],
                     "timeout": 1200, "twin_fixed": {"W": 2, "N": 3, "E": 1, "D": 1, "retry": 0, "retres": 1, "dup": 0, "restart": 0}},
    },
    functions=_FUNCS,
)

SPEC = PropSpec(
    "C08", [H_REPORT],
    assumptions=[
        "environment of C07 (vf/poolenv.py) without a user enqueue function; death causes: external kill (bare EOF, also discovered at enqueue time), "
        "poison input (end marker), worker-specific failure (dies on the first input it processes)",
        "restart == 1: after the first run the real Pool.restart_workers() is called (the fakes come back alive under a new identity on a new pipe, "
        "as PersistentWorker.restart does), then two more inputs are run with a fresh budget of 0-1 deaths and judged by the same clauses",
        "'every worker dead or closed' is read off the fakes' alive flags and the pool's closed set at the moment PoolError is raised",
        "'handed or being handed to a worker that died' = the environment's record of inputs sitting in a dead worker's inbox or refused by a dead worker",
    ],
    outside=["real workers (C09 drives real ones)", "user enqueue functions"],
    stubs=["poolenv.Env / FakePW / Conn", "time.sleep no-op"],
    technique="CrossHair/z3 symbolic execution of the real Pool.run against a symbolic-schedule environment",
)
