"""C02 — all worker kinds compute exactly what a direct call would.

Differential harness over the simulation: the target is called directly in the harness and run in
a thread / process / remote worker (constructor or Worker.create factory, run None/True/False,
target present or None) with symbolic argument shapes, return values (including results crossing
the pipe buffer capacity of the virtual OS) and exceptions."""
from collections import OrderedDict

from .. import wsim, targets as T, vos, simos
from ..vos import Hang, Killed
from ..rt import Outcome, ev, notrace, conc
from ..xh import Harness
from ..main import PropSpec
from pyworkers.worker import Worker, WorkerType

ASHAPES = [((), {}), ((1,), {}), ((1, "two"), {}), ((), {"x": 1}), ((1,), {"x": [2], "y": None}), ((None, 0), {"y": ""}),
           # arguments whose class is defined in the user's main script (vf/targets.py: MainBox)
           ((T.MainBox(3),), {}), ((1,), {"box": [T.MainBox(4)]})]
MODES = [(0, i) for i in range(len(T.C02_VALUES))] + [(1, i) for i in range(len(T.C02_EXCS))] + [(2, i) for i in range(len(T.BIG_SIZES))] + [(3, 0)]


def h_diff(kind, route, runflag, hastarget, mode, ashape, prior=0):
    with notrace():
        kind_, route_, runflag_, hast_ = conc(kind, 3), conc(route, 2), conc(runflag, 3), conc(hastarget, 2)
        prior_ = conc(prior, 3)
        mode_, ashape_ = conc(mode, len(MODES)), conc(ashape, len(ASHAPES))
        name = wsim.KIND_NAMES[kind_]
        m, idx = MODES[mode_]
        a, k = ASHAPES[ashape_]
        ev("c02", name, route_, runflag_, hast_, m, idx, ashape_)
        T.reset()
        W = wsim.World(server=wsim.is_remote_kind(kind_))
        try:
            if prior_:
                # history: another worker of the same kind was made through a factory earlier in this process
                from pyworkers.persistent import PersistentWorker
                wt = [WorkerType.THREAD, WorkerType.PROCESS, WorkerType.REMOTE][kind_]
                kw0 = {"host": wsim.SERVER_ADDR} if wsim.is_remote_kind(kind_) else {}
                w0 = (PersistentWorker if prior_ == 1 else Worker).create(wt, T.add, args=[1, 2], **kw0)
                w0.wait(timeout=10)
            sig, interesting = _run(W, kind_, route_, runflag_, hast_, m, idx, a, k)
        finally:
            errs = W.close()
            if errs:
                raise RuntimeError("simulation kernel errors: %r" % (errs,))
        size = "|size-%d" % T.BIG_SIZES[idx] if (m == 2 and sig is not None) else ""
        return Outcome(None if sig is None else "%s%s|%s" % (sig, size, name), interesting, "mode=%r args=%r kwargs=%r" % ((m, idx), a, k))


def _run(W, kind, route, runflag, hastarget, m, idx, a, k):
    import copy
    target = T.flex if hastarget else None
    run = [None, True, False][runflag]
    args = [m, idx] + list(copy.deepcopy(a))
    kwargs = copy.deepcopy(k)
    # --- reference: the direct call
    will_run = (run is True) or (run is None and target is not None)
    if will_run and target is not None:
        try:
            ref = ("ret", T.flex(*copy.deepcopy(args), **copy.deepcopy(kwargs)))
        except Exception as e:  # noqa
            ref = ("exc", e)
    else:
        ref = ("ret", None)        # not run, or run without a target: nothing to call
    # --- the worker
    kw = {"args": args, "kwargs": kwargs, "run": run}
    if wsim.is_remote_kind(kind):
        kw["host"] = wsim.SERVER_ADDR
        kw["main_path"] = simos.USER_MAIN
    try:
        if route:
            w = Worker.create([WorkerType.THREAD, WorkerType.PROCESS, WorkerType.REMOTE][kind], target, **kw)
        else:
            w = wsim.KINDS[kind](target, **kw)
    except (Hang, Killed):
        return "c02.constructor-blocks", True
    except Exception as e:  # noqa
        return "c02.constructor-raises-%s" % type(e).__name__, True
    if type(w) is not wsim.KINDS[kind]:
        return "c02.factory-built-wrong-class", True
    if not will_run:
        if w.is_alive():
            return "c02.not-run-worker-alive", True
    try:
        dead = w.wait(timeout=20)
    except Hang:
        return "c02.wait-blocks-forever", True
    except Exception as e:  # noqa
        return "c02.wait-raises-%s" % type(e).__name__, True
    if not dead:
        return "c02.worker-does-not-finish", True
    try:
        he, res, err = w.has_error, w.result, w.error
    except Exception as e:  # noqa
        return "c02.accessor-raises-%s" % type(e).__name__, True
    if ref[0] == "ret":
        v = ref[1]
        if he is not False:
            return "c02.error-where-direct-call-returns", True
        if err is not None:
            return "c02.error-set-on-success", True
        if not (res == v and type(res) is type(v)):
            return "c02.result-differs-from-direct-call", True
    else:
        e = ref[1]
        if he is not True:
            return "c02.success-where-direct-call-raises", True
        if res is not None:
            return "c02.result-set-on-failure", True
        if type(err) is not type(e) or err.args != e.args:
            return "c02.error-differs-from-direct-call", True
    return None, will_run


_params = OrderedDict([("kind", (0, 2)), ("route", (0, 1)), ("runflag", (0, 2)), ("hastarget", (0, 1)),
                       ("mode", (0, len(MODES) - 1)), ("ashape", (0, len(ASHAPES) - 1)), ("prior", (0, 2))])

_FUNCS = ["pyworkers.worker:Worker.__init__", "pyworkers.worker:Worker.create", "pyworkers.worker:Worker.run", "pyworkers.worker:Worker.do_work",
          "pyworkers.thread:ThreadWorker._run", "pyworkers.process:ProcessWorker._run", "pyworkers.process:ProcessWorker.wait",
          "pyworkers.process:ProcessWorker._get_result", "pyworkers.remote:RemoteWorker.__getstate__", "pyworkers.remote:RemoteWorker.__setstate__",
          "pyworkers.remote:RemoteWorker._run_backend", "pyworkers.remote:RemoteWorker._fetch_results", "pyworkers.remote:RemoteWorker.wait"]

H_DIFF = Harness(
    "diff", "vf.props.c02:h_diff", _params,
    tiers={
        "quick": {"extra_pre": ["ashape <= 3 or ashape >= 6", "prior == 0 or (route == 1 and ashape <= 1 and mode % 4 == 0)"],
                  "partition": ["kind", "route", "runflag"], "timeout": 300, "twin_fixed": {"kind": 1, "route": 0, "runflag": 0}},
        "thorough": {"extra_pre": ["prior == 0 or route == 1"], "partition": ["kind", "route", "runflag", "hastarget", "ashape"], "timeout": 900,
                     "twin_fixed": {"kind": 1, "route": 0, "runflag": 0, "hastarget": 1, "ashape": 1}},
    },
    functions=_FUNCS,
)

SPEC = PropSpec(
    "C02", [H_DIFF],
    assumptions=[
        "simulation model of C01; the reference outcome is the direct call of the same target in the harness",
        "pipe capacity of the virtual OS: 200 KiB per direction (AF_UNIX socketpair default); a frame larger than the free capacity blocks the writer until a "
        "reader is draining the pipe; result sizes 0 B, 100 B, 70 KiB, 300 KiB, 2 MiB",
        "values cross the process boundary through the real pickle module",
        "prior: optionally a persistent (1) or one-shot (2) worker of the same kind is created through the factory first; class-level containers of the worker "
        "classes are emptied before every path",
        "classes defined in the main script: vf/targets.py MainBox can only be unpickled in a process that has the user's main script as its main module - "
        "the parent, processes spawned by multiprocessing (spawn re-imports it), and a remote backend only after _run_backend ran runpy.run_path(main_path)",
    ],
    outside=["real serialisation cost / time", "result sizes not on the menu"],
    stubs=["vf/simos.py"],
    technique="CrossHair/z3 bounded symbolic execution over a deterministic simulation, differential against a direct call",
)
