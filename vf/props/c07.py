"""C07 — Pool.run yields exactly one result per input under every schedule and death.

The real Pool.run (with all its nested closures) runs against the observation-driven environment
of vf/poolenv.py; the schedule vector, the number of workers/inputs/deaths, the extra-pending
setting, the poison input and the user enqueue function's refusals are symbolic.
"""
import traceback
from collections import OrderedDict

import pyworkers.pool as poolmod
from pyworkers.pool import Pool, PoolError

from .. import vos, poolenv
from ..rt import Outcome, ev, Sched, notrace
from ..xh import Harness
from ..main import PropSpec

NSCHED = 12


from ..rt import conc as _conc


def _inner_fn(e):
    tb = traceback.extract_tb(e.__traceback__)
    name = "?"
    for fr in tb:
        if fr.filename.endswith("pyworkers/pool.py"):
            name = fr.name
    return name


def make_pool(env, retry=True):
    pool = Pool(poolenv.target, retry=retry)
    for w in env.workers:
        pool._workers[w.id] = w
        pool._queues[w.id] = w.conn
    poolenv.install(poolmod, env)
    return pool


def inputs_of(N, dup):
    """dup 0: pairwise distinct inputs; 1: all inputs compare equal; 2: consecutive pairs compare equal."""
    if dup == 1:
        return [0] * N
    if dup == 2:
        return [i // 2 for i in range(N)]
    return list(range(N))


def run_pool(pool, env, N, E, efn_bits=0, use_callable=False, return_results=True, dup=0):
    """Returns (kind, value): kind in ret / poolerror / exc / hang."""
    sources = [iter(inputs_of(N, dup))]
    if use_callable:
        sources.append(lambda worker: 7)
    enqueue_fn = None
    if efn_bits:
        calls = [0]

        def enqueue_fn(worker, *inp):
            i = calls[0]
            calls[0] += 1
            if i < 6 and (efn_bits >> i) & 1:
                return False
            worker.enqueue(*inp)
            return True
    try:
        ret = pool.run(*sources, worker_extra_pending_inputs=E, enqueue_fn=enqueue_fn, return_results=return_results)
        return "ret", ret
    except PoolError as e:
        return "poolerror", e
    except vos.Hang:
        return "hang", vos.hang_record()
    except Exception as e:  # noqa
        return "exc", e


def expected(N, use_callable=False, dup=0):
    return [poolenv.target(x, 7) if use_callable else poolenv.target(x) for x in inputs_of(N, dup)]


def multiset_diff(ret, exp):
    exp = list(exp)
    extra = []
    for r in ret:
        if r in exp:
            exp.remove(r)
        else:
            extra.append(r)
    return exp, extra      # missing, extra


def h_run(W, N, E, D, poison, efn, callsrc, dbl, dup, second, glitch, s0, s1, s2, s3, s4, s5, s6, s7, s8, s9, s10, s11):
    # The symbolic integers never enter pyworkers code here: they are consumed by comparisons in _conc() and
    # Sched.pick() (SymbolicInt.__eq__/__bool__ talk to the solver directly), so the opcode tracer is not needed.
    with notrace():
        return _h_run(W, N, E, D, poison, efn, callsrc, dbl, dup, second, glitch, [s0, s1, s2, s3, s4, s5, s6, s7, s8, s9, s10, s11])


def _h_run(W, N, E, D, poison, efn, callsrc, dbl, dup, second, glitch, ss):
    vos.reset()
    W = max(1, _conc(W, 4))
    N = _conc(N, 7)
    E = _conc(E, 3)
    D = _conc(D, 4)
    poison = _conc(poison, N + 1)            # 0 = none, i+1 = input i is poison
    efn = _conc(efn, 64)
    callsrc = _conc(callsrc, 2)
    dbl = _conc(dbl, 2)
    dup = _conc(dup, 3)
    second = _conc(second, 3)           # 0 one run / 1 a second run after a healthy worker has been added / 2 a second run on the pool as it is
    glitch = _conc(glitch, 2)
    sched = Sched(ss)
    env = poolenv.Env(sched, W, D, poison=(poison - 1 if poison else None), double_ready=bool(dbl), glitches=glitch)
    ev("run", W, N, E, D, poison, efn, callsrc, dbl)
    pool = make_pool(env, retry=True)
    kind, val = run_pool(pool, env, N, E, efn_bits=efn, use_callable=bool(callsrc), dup=dup)
    interesting = any(e[0] == "dead" for e in env.events)
    for e in env.events:
        ev(*e)
    ev(kind)
    if kind == "hang":
        return Outcome("c07.run.%s" % ("spins" if "spin" in val[1] else "blocks-forever"), True, str(val))
    if kind == "exc":
        return Outcome("c07.run.raises-%s-in-%s" % (type(val).__name__, _inner_fn(val)), True, repr(val))
    if second and kind in ("poolerror", "ret"):
        # a second run on the same pool, after one more (healthy) worker has been added: its results must
        # correspond to its own inputs only, whatever the first run left behind
        sig2 = _second_run(pool, env, E, add_worker=(second == 1))
        if sig2 is not None:
            return Outcome(sig2 + ("|after-failed-run" if kind == "poolerror" else "|after-successful-run"), True)
    if kind == "poolerror":
        return Outcome(None, interesting)
    if pool._map_guard:
        return Outcome("c07.run.map-guard-left-set", True)
    if val is None:
        if N == 0:
            return Outcome(None, interesting)
        return Outcome("c07.run.returns-None-with-inputs", True)
    missing, extra = multiset_diff(val, expected(N, bool(callsrc), dup))
    if extra:
        dups = [r for r in extra if r in expected(N, bool(callsrc), dup)]
        return Outcome("c07.run.duplicate-result" if dups else "c07.run.foreign-result", True, "extra=%r missing=%r" % (extra, missing))
    if missing:
        return Outcome("c07.run.missing-result", True, "missing=%r" % (missing,))
    return Outcome(None, interesting)


def _second_run(pool, env, E, add_worker=True):
    if add_worker:
        w = poolenv.FakePW(env, len(env.workers))
        env.workers.append(w)
        pool._workers[w.id] = w
        pool._queues[w.id] = w.conn
    env.deaths_left = 0
    env.poison = None
    inputs = [100, 101]
    try:
        ret = pool.run(iter(inputs), worker_extra_pending_inputs=E)
    except PoolError:
        if not add_worker:
            if any(w.alive and not w.failing for w in env.workers):
                return "c07.second-run.fails-although-a-healthy-worker-survived"
            return None                   # nobody left: PoolError is the allowed ending
        return "c07.second-run.fails-although-a-healthy-worker-was-added"
    except vos.Hang:
        return "c07.second-run.blocks-forever"
    except Exception as e:  # noqa
        return "c07.second-run.raises-%s-in-%s" % (type(e).__name__, _inner_fn(e))
    if ret is None:
        return "c07.second-run.returns-None" + ("" if add_worker else "-with-inputs-and-no-worker-left")
    missing, extra = multiset_diff(ret, [poolenv.target(x) for x in inputs])
    if extra:
        return "c07.second-run.result-of-an-earlier-run"
    if missing:
        return "c07.second-run.missing-result"
    return None


_params = OrderedDict([("W", (1, 3)), ("N", (0, 6)), ("E", (0, 2)), ("D", (0, 3)), ("poison", (0, 6)), ("efn", (0, 63)),
                       ("callsrc", (0, 1)), ("dbl", (0, 1)), ("dup", (0, 2)), ("second", (0, 2)), ("glitch", (0, 1))] + [("s%d" % i, (0, 5)) for i in range(NSCHED)])

_FUNCS = ["pyworkers.pool:Pool.run", "pyworkers.pool:Pool.__init__", "pyworkers.pool:Pool._get_all_workers_ids",
          "pyworkers.pool:Pool._get_all_queues", "pyworkers.pool:Pool._aux_connection"]

H_RUN = Harness(
    "run", "vf.props.c07:h_run", _params,
    tiers={
        "quick": {"ranges": {"W": (1, 2), "N": (0, 4), "E": (0, 1), "D": (0, 2), "poison": (0, 1), "dup": (0, 1)},
                  "fixed": {"callsrc": 0, "dbl": 0, "efn": 0},
                  "partition": ["W", "N", "E", "D", "dup"], "filter": (lambda f: (f["D"] < 2 or f["N"] <= 2) and (f["dup"] == 0 or (f["N"] in (2, 3) and f["D"] == 1))), "timeout": 200,
                  "extra_pre": ["second == 0 or (N <= 2 and dup == 0 and D <= 1)", "glitch == 0 or (second == 0 and dup == 0 and N <= 3 and D <= 1 and poison == 0)"],
                  "twin_fixed": {"W": 2, "N": 3, "E": 1, "D": 1, "dup": 0}},
        # thorough: the quick space widened one dimension at a time (a full cross product is out of reach): a third worker,
        # extra pending 2, a third death, poison on any input, refusing enqueue function, callable input source, two pipes
        # ready at once, pairwise-equal inputs, second run
        "thorough": {"ranges": {"W": (1, 3), "N": (0, 4), "E": (0, 2), "D": (0, 3), "poison": (0, 4), "efn": (0, 3), "dup": (0, 2)},
                     "partition": ["W", "N", "E", "D", "dup", "glitch", "second", "dbl", "efn"],
                     "filter": (lambda f: (f["W"] <= 2 or (f["N"] <= 3 and f["D"] <= 1 and f["E"] <= 1)) and (f["E"] <= 1 or (f["N"] <= 3 and f["D"] <= 1))
                                and (f["D"] <= 1 or f["N"] <= 2 + (f["D"] == 2)) and (f["dup"] == 0 or (f["N"] in (2, 3) and f["D"] == 1 and f["W"] == 2))
                                and (f["glitch"] > 0) + (f["second"] > 0) + (f["dbl"] > 0) + (f["efn"] > 0) <= 1
                                and (f["W"] <= 2 or f["second"] + f["dbl"] + f["efn"] == 0)       # three workers: plain runs and glitches only
                                and (f["glitch"] == 0 or f["N"] <= 2 or (f["W"] <= 2 and f["D"] <= 1))   # glitches on three inputs: two workers, one death
                                and (f["second"] == 0 or (f["N"] <= 3 and f["D"] <= 1)) and (f["efn"] == 0 or f["N"] <= 3)),
                     "extra_pre": ["(efn > 0) + (callsrc > 0) + (dbl > 0) + (second > 0) + (poison > 1) + (glitch > 0) <= 1",
                                   "second == 0 or (N <= 3 and D <= 1)", "efn == 0 or N <= 3",
                                   # the largest cells (three workers, or two deaths on three inputs) keep the quick-tier menus of poison / input source
                                   "(W < 3 and D < 2) or N < 2 or (poison <= 1 and callsrc == 0)"],
                     "timeout": 1200, "twin_fixed": {"W": 2, "N": 3, "E": 1, "D": 1, "dup": 0, "glitch": 0, "second": 0, "dbl": 0, "efn": 0}},
    },
    functions=_FUNCS,
)

SPEC = PropSpec(
    "C07", [H_RUN],
    assumptions=[
        "workers are the observation-driven fakes of vf/poolenv.py: enqueue/is_alive/connection.wait/recv are the only observations a "
        "single-threaded pool can make; results, end marker and EOF of one worker arrive in that order, everything else is scheduled symbolically",
        "a death is 'answer j <= |inbox| queued inputs, then stop' (external kill: bare EOF; poison input: end marker then EOF); deaths can also be "
        "discovered at enqueue time (WorkerClosedError)",
        "fairness is built in: every wait() makes some possible event happen; if none is possible the pool would block forever (Hang)",
        "time.sleep is a no-op",
        "glitch: one enqueue may fail on a worker that still reports alive - either transiently (the retry succeeds) or because the worker has closed its input "
        "pipe and is about to exit (is_alive() keeps answering True for 0-2 more calls)",
    ],
    outside=["real workers and real SIGKILL timing (the sampling half of the quantifier)", "more than 3 workers / 6 inputs / 12 schedule decisions",
             "an enqueue that keeps raising on a worker that stays alive (e.g. an unpicklable input): Pool.run retries it forever by design"],
    stubs=["poolenv.Env.wait for multiprocessing.connection.wait", "poolenv.FakePW for persistent workers", "time.sleep no-op"],
    technique="CrossHair/z3 symbolic execution of the real Pool.run against a symbolic-schedule environment",
)
