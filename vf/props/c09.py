"""C09 — no worker outlives its pool; a pool stays usable across runs and restarts.

The real Pool (add_worker, run, restart_workers, __exit__/close/terminate with their cleanup
threads) drives real persistent thread/process/remote workers inside the simulation; a symbolic
history of operations is followed by a symbolic way of leaving the pool."""
from collections import OrderedDict

from pyworkers.pool import Pool, PoolError
from pyworkers.worker import WorkerType
from pyworkers.persistent import WorkerClosedError

from .. import wsim, targets as T, vos, simos
from ..vos import Hang, Killed
from ..rt import Outcome, ev, notrace, conc
from ..xh import Harness
from ..main import PropSpec

OPS = ["add-thread", "add-process", "add-remote", "run", "kill-a-child", "restart-workers", "make-a-worker-stuck", "failing-registration",
       "run-whose-callback-raises", "restart-workers-without-force"]
EXITS = ["with-exit", "with-body-raises", "close", "terminate"]
FORCE = [None, True, False]


class BodyError(Exception):
    pass


class FlakyPool(Pool):
    fail_next = False

    def handle_new_worker(self, worker):
        if self.fail_next:
            self.fail_next = False
            raise RuntimeError("registration hook failed")


def h_hist(n, o1, o2, o3, o4, o5, exitmode, tmo, force):
    with notrace():
        n_ = conc(n, 6)
        ops = [conc(o, len(OPS)) for o in (o1, o2, o3, o4, o5)[:n_]]
        exit_, tmo_, force_ = conc(exitmode, len(EXITS)), [1, 3][conc(tmo, 2)], FORCE[conc(force, 3)]
        ev("c09", str([OPS[o] for o in ops]), EXITS[exit_], tmo_, str(force_))
        T.reset()
        W = wsim.World(server=True)
        try:
            sig = _run(W, ops, exit_, tmo_, force_)
        except Hang:
            sig = "c09.blocks-forever"
        except Killed:
            sig = "c09.kills-the-caller"
        finally:
            errs = W.close()
            if errs:
                raise RuntimeError("simulation kernel errors: %r" % (errs,))
        return Outcome(sig, len(ops) >= 2, "ops=%r exit=%s" % ([OPS[o] for o in ops], EXITS[exit_]))


def children(W):
    return {pid: p for pid, p in W.sim.procs.items()}


def _run(W, ops, exitmode, tmo, force):
    s = W.sim
    pool = FlakyPool(T.poolfn, close_timeout=tmo, name="P")
    pool.force = force
    runs = 0
    stuck = False
    stuck_w = [None]
    has_thread = False
    body_exc = None

    raise_after = [False]

    def body():
        nonlocal runs, stuck, has_thread
        for o in ops:
            op = OPS[o]
            if op in ("add-thread", "add-process", "add-remote"):
                wt = {"add-thread": WorkerType.THREAD, "add-process": WorkerType.PROCESS, "add-remote": WorkerType.REMOTE}[op]
                kw = {"host": wsim.SERVER_ADDR} if op == "add-remote" else {}
                pool.add_worker(wt, **kw)
                has_thread = has_thread or op == "add-thread"
            elif op == "failing-registration":
                before_procs = set(children(W))
                before_workers = set(pool._workers)
                pool.fail_next = True
                try:
                    pool.add_worker(WorkerType.PROCESS)
                    return "c09.failed-registration-not-reported"
                except RuntimeError:
                    pass
                s.sleep(3)
                leaked = [pid for pid, p in children(W).items() if pid not in before_procs and not p.exited]
                if leaked:
                    return "c09.failed-registration-leaks-a-child-process"
                if set(pool._workers) != before_workers or set(pool._queues) != before_workers:
                    return "c09.failed-registration-leaves-an-entry"
            elif op == "run":
                if stuck:
                    continue          # a run with a stuck worker never ends by design (C07's fairness assumption)
                runs += 1
                live = [w for w in pool.workers if w.is_alive()]
                try:
                    res = pool.run(iter([runs] * 3), iter(range(3)))
                except PoolError:
                    if live:
                        return "c09.run-fails-although-live-workers-exist"
                    continue
                if res is None:
                    if live:
                        return "c09.run-returns-None-with-live-workers"
                    continue
                want = [("p", runs, x) for x in range(3)]
                if sorted(res) != sorted(want):
                    return "c09.run-results-do-not-match-this-runs-inputs"
            elif op == "run-whose-callback-raises":
                if stuck or not [w for w in pool.workers if w.is_alive()]:
                    continue
                runs += 1
                seen = [0]

                def cb(worker, what, *a):
                    if what == "finished":
                        seen[0] += 1
                        if seen[0] == 1:
                            raise BodyError()       # with further answers still outstanding
                try:
                    pool.run(iter([runs] * 4), iter(range(4)), worker_callback=cb, worker_extra_pending_inputs=1)
                except BodyError:
                    raise_after[0] = True
                    return None                     # the user's exception leaves the with-block
                except PoolError:
                    continue
            elif op == "kill-a-child":
                for w in pool.workers:
                    if not w.is_thread and w.is_alive():
                        pid = w.pid
                        pr = s.procs.get(pid)
                        if pr is not None and not pr.exited:
                            pr._sigkill()
                            s.sleep(1)
                            if w is stuck_w[0]:
                                stuck = False       # the stuck child is the one that was killed
                                stuck_w[0] = None
                            break
            elif op == "restart-workers":
                if stuck and has_thread:
                    continue
                try:
                    pool.restart_workers(timeout=tmo)
                except RuntimeError:
                    return "c09.restart_workers-raises"
                stuck = False
                for w in pool.workers:
                    if not w.is_alive():
                        return "c09.worker-not-alive-after-restart_workers"
            elif op == "restart-workers-without-force":
                # with a stuck worker and force=False the restart legitimately fails (RuntimeError); whatever happened to the
                # pool's bookkeeping by then, leaving the pool must still reap every child
                if stuck and has_thread:
                    continue
                try:
                    pool.restart_workers(timeout=tmo, force=False)
                except RuntimeError:
                    if not stuck:
                        return "c09.restart_workers-raises"
                    continue
                if stuck:
                    return "c09.restart_workers-claims-success-with-a-stuck-worker-and-no-force"
                for w in pool.workers:
                    if not w.is_alive():
                        return "c09.worker-not-alive-after-restart_workers"
            elif op == "make-a-worker-stuck":
                for w in pool.workers:
                    if w.is_alive() and not w.is_thread:
                        try:
                            w.enqueue(0, "stuck")
                        except WorkerClosedError:
                            continue            # alive but already closed (e.g. by a restart that could not stop it): try the next one
                        stuck = True
                        stuck_w[0] = w
                        s.sleep(1)
                        break
        return None

    sig = None
    if exitmode in (0, 1):
        try:
            with pool:
                sig = body()
                if sig is None and (exitmode == 1 or raise_after[0]):
                    raise BodyError()
        except BodyError:
            pass
        except RuntimeError as e:
            return "c09.leaving-the-with-block-raises-RuntimeError"
    else:
        sig = body()
        if sig is None:
            try:
                if exitmode == 2 and not raise_after[0]:
                    pool.close()
                else:
                    pool.terminate()
            except RuntimeError:
                return "c09.close-or-terminate-raises-RuntimeError"
    if sig is not None:
        try:
            pool.terminate(timeout=1, force=True)
        except BaseException:  # noqa
            pass
        return sig
    # ---- after the pool has been left
    graceful = exitmode in (0, 2) and not raise_after[0]
    s.sleep(2)
    for w in pool.workers:
        if w.is_thread:
            continue
        if force is False and graceful:
            continue                    # the user explicitly disabled forced termination
        if force is False and stuck:
            continue
        pr = s.procs.get(w.pid)
        if pr is not None and not pr.exited:
            return "c09.child-process-outlives-the-pool"
        if w.is_alive():
            return "c09.worker-alive-after-pool-exit"
    if force is not False:
        # independent of the pool's own bookkeeping: every process the history ever spawned
        for pid, pr in sorted(children(W).items()):
            if not pr.exited:
                return "c09.child-process-outlives-the-pool|forgotten-by-the-pool"
    if pool._queues:
        return "c09.queues-left-after-close"
    return None


_params = OrderedDict([("n", (0, 5))] + [("o%d" % i, (0, len(OPS) - 1)) for i in range(1, 6)] + [("exitmode", (0, 3)), ("tmo", (0, 1)), ("force", (0, 2))])

_FUNCS = ["pyworkers.pool:Pool.add_worker", "pyworkers.pool:Pool.attach", "pyworkers.pool:Pool.__exit__", "pyworkers.pool:Pool._close", "pyworkers.pool:Pool.close",
          "pyworkers.pool:Pool.terminate", "pyworkers.pool:Pool.restart_workers", "pyworkers.pool:Pool.run", "pyworkers.persistent:PersistentWorker.restart",
          "pyworkers.worker:Worker.create"]

H_HIST = Harness(
    "hist", "vf.props.c09:h_hist", _params,
    tiers={
        "quick": {"ranges": {"n": (0, 4)}, "fixed": {"o5": 0, "tmo": 0}, "partition": ["n", "o1", "exitmode"], "timeout": 300,
                  # four-step histories: two workers first, the first of them a process worker
                  "filter": (lambda f: (f["o1"] in (0, 1, 2) or f["n"] == 0) and (f["n"] <= 3 or f["o1"] == 1)),
                  "extra_pre": ["n <= 3 or (o2 == 1 and (o3 == 6 or o3 == 4) and (o4 == 9 or o4 == 5 or o4 == 3))"], "twin_fixed": {"n": 3, "o1": 1, "exitmode": 0}},
        "thorough": {"ranges": {"n": (0, 4)}, "fixed": {"o5": 0}, "partition": ["n", "o1", "o2", "exitmode", "force"], "timeout": 2400,
                     "filter": (lambda f: f["o1"] in (0, 1, 2) or f["n"] == 0), "twin_fixed": {"n": 3, "o1": 1, "o2": 3, "exitmode": 0, "force": 0}},
    },
    functions=_FUNCS,
)

SPEC = PropSpec(
    "C09", [H_HIST],
    assumptions=[
        "simulation model of C01 with the real Pool driving real persistent workers; histories start with an add_worker (an empty pool has nothing to check)",
        "a stuck worker is a process/remote worker whose target swallows every Exception for 300 model seconds; a run is not attempted while a worker is "
        "stuck (Pool.run only terminates if every worker eventually answers or dies: C07)",
        "child processes are checked 2 model seconds after the pool was left; with force=False the user disabled forced termination, so survivors of a "
        "graceful close are accepted",
    ],
    outside=["the OS process table itself", "histories longer than 4 operations", "attach() of externally created workers"],
    stubs=["vf/simos.py"],
    technique="CrossHair/z3 bounded symbolic execution over a deterministic simulation of the real pool and worker code",
)
