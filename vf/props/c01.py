"""C01 — a dead worker always has one definite, consistent and stable outcome.

The real code of all six worker classes (parent side, child side, control threads, and for the
remote kinds the real RemoteServer) runs in the deterministic simulation of vf/sim.py; the worker
kind, the way the work ends, the fault (graceful terminate / SIGKILL) and its landing point k
(index into the child's statement-level injection points, regenerated from source) are symbolic.
"""
from collections import OrderedDict

from .. import wsim, targets as T
from ..rt import Outcome, ev, notrace, conc
from ..xh import Harness
from ..main import PropSpec
from . import wscen
from pyworkers.worker import WorkerTerminatedError

ENDINGS = [(0, i) for i in range(len(T.VALUES))] + [(1, i) for i in range(len(T.EXCS))] + [(2, 0), (3, 0)]


def ending_name(e):
    ending, idx = ENDINGS[e]
    if ending == 0:
        return "return-" + T.VALUES[idx][0]
    if ending == 1:
        return "raise-" + T.EXCS[idx][0]
    return "raise-KeyboardInterrupt" if ending == 2 else "raise-SystemExit"


def transferable(e):
    ending, idx = ENDINGS[e]
    if ending == 0:
        return T.VALUES[idx][0] in T.TRANSFERABLE_VALUES
    if ending == 1:
        return T.EXCS[idx][0] in T.TRANSFERABLE_EXCS
    return False


def judge(rec, kind, e, fault):
    """C01 oracle on a scenario record.  Returns (signature or None, interesting)."""
    ending, idx = ENDINGS[e]
    if rec.get("ctor") != "ok" or "api_exc" in rec or rec.get("self_killed"):
        return None, False                      # construction / wait / terminate misbehaving: C20 / C04
    if "hang" in rec and "obs1" not in rec:
        return None, False
    if fault == 3 and "obs_early" in rec:
        # observation made while the forwarding thread was still busy: if it says "dead" the outcome must already be definite
        if rec.get("obs_early_err"):
            return "c01.%s-while-forwarding-thread-busy" % rec["obs_early_err"], True
        oe = rec["obs_early"]
        if oe[0] is False or rec.get("early_wait") is True:
            if oe[1] is None:
                return "c01.observed-dead-but-has_error-None", True
            if rec.get("obs1") is not None and not wsim.obs_same(oe, rec["obs1"]):
                return "c01.outcome-changes-after-observed-dead", True
    if not rec.get("dead"):
        return None, False                      # never observed dead
    if "hang" in rec:
        return "c01.observation-blocks-after-death", True
    if rec["obs1_err"]:
        return "c01.%s-after-death" % rec["obs1_err"], True
    if rec["obs2_err"]:
        return "c01.second-observation-%s" % rec["obs2_err"], True
    alive, he, res, err = rec["obs1"]
    if alive is not False:
        return "c01.is_alive-true-after-observed-dead", True
    if he is None:
        return "c01.has_error-None-on-dead-worker", True
    if he not in (True, False):
        return "c01.has_error-not-bool", True
    thread = wsim.is_thread_kind(kind)
    pers = wsim.is_persistent(kind)
    if he is False:
        if err is not None:
            return "c01.shape-no-error-but-error-set", True
        if pers:
            allowed = (1,) if (fault == 0 and ending == 0) else (0, 1)
            if ending != 0 and res == 1 and fault == 0:
                return "c01.persistent-counts-failed-item", True
            if type(res) is not int or res not in allowed:
                return "c01.persistent-result-not-count", True
        else:
            if ending != 0:
                return "c01.success-reported-for-failed-work", True
            want = T.VALUES[idx][1]()
            same = wsim.exc_same(res, want) if isinstance(want, BaseException) else (res == want and type(res) is type(want))
            if not same:
                return "c01.wrong-result", True
    else:
        if res is not None:
            return "c01.shape-error-but-result-set", True
        if err is None:
            excusable = fault != 0 or not transferable(e) or ending in (2, 3)
            if not excusable:
                return "c01.error-lost", True
        elif isinstance(err, WorkerTerminatedError):
            if fault != 1:
                return "c01.terminated-error-without-terminate", True
        else:
            if ending == 1:
                want = T.EXCS[idx][1]()
                if not wsim.exc_same(err, want):
                    return "c01.wrong-error", True
            elif ending == 2:
                if not isinstance(err, KeyboardInterrupt):
                    return "c01.wrong-error", True
            elif ending == 3:
                if not isinstance(err, SystemExit):
                    return "c01.wrong-error", True
            else:
                # the work returned normally: an error other than the terminate request is only acceptable
                # for values that cannot be transferred
                if transferable(e) and fault == 0:
                    return "c01.error-for-successful-work", True
        if fault == 0 and ending == 0 and transferable(e):
            return "c01.failure-reported-for-successful-work", True
    if not wsim.obs_same(rec["obs1"], rec["obs2"]):
        return "c01.outcome-changes-between-observations", True
    return None, True


def make_h(kind):
    def h(e, fault, k, how=0):
        with notrace():
            e_, fault_ = conc(e, len(ENDINGS)), conc(fault, 4)
            k_ = conc(k, KMAX[kind] + 1) if fault_ else 0
            ev("c01", wsim.KIND_NAMES[kind], ending_name(e_), fault_, k_)
            how_ = conc(how, 3) if fault_ == 0 else 0
            rec = wscen.scenario(kind, ENDINGS[e_][0], ENDINGS[e_][1], fault_, k_, how=how_)
            if rec["sim_errors"]:
                raise RuntimeError("simulation kernel errors: %r" % (rec["sim_errors"],))
            ev(str(rec.get("label")), how_)
            sig, interesting = judge(rec, kind, e_, fault_)
            if sig is not None:
                sig = "%s|%s" % (sig, wsim.KIND_NAMES[kind])
            detail = "label=%s obs=%r term=%r wait=%r" % (rec.get("label"), rec.get("obs1"), rec.get("term"), rec.get("wait"))
            return Outcome(sig, interesting and (fault_ == 0 or bool(rec.get("landed"))), detail)
    h.__name__ = "h_%s" % wsim.KIND_NAMES[kind]
    return h


KMAX = {}
for _kind in range(6):
    KMAX[_kind] = max(wscen.count_points(_kind, 0, 0)[0], wscen.count_points(_kind, 1, 0)[0]) + 1

h_thread, h_process, h_remote, h_pthread, h_pprocess, h_premote = [make_h(k) for k in range(6)]

_FUNCS = ["pyworkers.worker:Worker.result", "pyworkers.worker:Worker.error", "pyworkers.worker:Worker.has_error",
          "pyworkers.thread:ThreadWorker._run", "pyworkers.thread:ThreadWorker.is_alive", "pyworkers.thread:ThreadWorker.wait",
          "pyworkers.thread:ThreadWorker.terminate",
          "pyworkers.process:ProcessWorker._run", "pyworkers.process:ProcessWorker._ctrl_fn", "pyworkers.process:ProcessWorker._get_result",
          "pyworkers.process:ProcessWorker.wait", "pyworkers.process:ProcessWorker.terminate", "pyworkers.process:ProcessWorker._start",
          "pyworkers.remote:RemoteWorker._run_backend", "pyworkers.remote:RemoteWorker._ctrl_fn_local", "pyworkers.remote:RemoteWorker._ctrl_fn_remote",
          "pyworkers.remote:RemoteWorker._fetch_results", "pyworkers.remote:RemoteWorker._run_frontend", "pyworkers.remote:RemoteWorker.wait",
          "pyworkers.remote:RemoteWorker.terminate", "pyworkers.remote:RemoteWorker.is_alive", "pyworkers.remote:RemoteWorker.__setstate__",
          "pyworkers.remote:recv_msg", "pyworkers.remote:send_msg",
          "pyworkers.persistent_thread:PersistentThreadWorker.do_work", "pyworkers.persistent_process:PersistentProcessWorker.do_work",
          "pyworkers.persistent_remote:PersistentRemoteWorker.do_work", "pyworkers.persistent_remote:PersistentRemoteWorker._fetch_results",
          "pyworkers.utils:PipeEndpoint.get", "pyworkers.remote_server:RemoteServer.run"]


def _harness(kind):
    name = wsim.KIND_NAMES[kind]
    params = OrderedDict([("e", (0, len(ENDINGS) - 1)), ("fault", (0, 3)), ("k", (0, KMAX[kind])), ("how", (0, 2))])
    if wsim.is_thread_kind(kind):
        flt = (lambda f: f["fault"] in (0, 1))
    elif wsim.is_remote_kind(kind):
        flt = None
    else:
        flt = (lambda f: f["fault"] != 3)
    quick = {"ranges": {"e": (0, 9)}, "partition": ["fault", "e"], "timeout": 300, "twin_fixed": {"fault": 1, "e": 0}}
    thorough = {"partition": ["fault", "e"], "timeout": 900, "twin_fixed": {"fault": 1, "e": 0}}
    if flt:
        quick["filter"] = flt
        thorough["filter"] = flt
    return Harness(name, "vf.props.c01:h_%s" % name, params, tiers={"quick": quick, "thorough": thorough}, functions=_FUNCS)


HARNESSES = [_harness(k) for k in range(6)]

def real_replay(harness, args, failure):
    """Thread kinds, graceful terminate: reproduce the landing on a real thread with a line tracer."""
    import re
    if harness not in ("thread", "pthread") or args.get("fault") != 1:
        return None, "real-thread replay covers the thread kinds with fault=terminate only"
    m = re.search(r"label=(\S+)", failure.get("detail", ""))
    if not m or ":" not in m.group(1) or m.group(1).startswith("target:"):
        return None, "landing label has no source line"
    label = m.group(1)
    from .. import realthread
    realthread.restore_real_world()
    from pyworkers.thread import ThreadWorker
    from pyworkers.persistent_thread import PersistentThreadWorker
    ending, idx = ENDINGS[args["e"]]
    cls = ThreadWorker if harness == "thread" else PersistentThreadWorker
    T.reset()
    r = realthread.run_with_landing(lambda: cls(T.work, args=[ending, idx]), label,
                                    after=(lambda w: w.enqueue()) if harness == "pthread" else None)
    if r is None or not r["fired"]:
        return None, "the real thread never reached %s" % label
    alive, he, res, err = r["observed"]
    sig = failure["signature"]
    if "has_error-None" in sig:
        return (he is None), "real thread, WorkerTerminatedError raised at %s: observed %r" % (label, r["observed"])
    if "raises" in sig:
        return (isinstance(he, str) and he.startswith("raises")), "real thread at %s: observed %r" % (label, r["observed"])
    return None, "real thread at %s: observed %r (no automatic comparison for this signature)" % (label, r["observed"])


SPEC = PropSpec(
    "C01", HARNESSES,
    assumptions=[
        "execution model: deterministic simulation (vf/sim.py): every actor runs its real code, one at a time; control changes hands only at "
        "virtual-OS calls and statement-level injection points; the running actor runs until it blocks",
        "graceful terminate: the child is parked at its k-th injection point, the parent then calls the real terminate(); the asynchronous "
        "exception is raised at the child's next injection point after PyThreadState_SetAsyncExc was called for it",
        "kill: the child process dies at its k-th injection point (also between the two halves of a pipe frame); its descriptors are closed",
        "slow forwarding thread (remote kinds, fault 3): the parent-side frontend thread sleeps 3 model seconds at its k-th statement while the parent "
        "calls wait(timeout=1) and observes; 'dead' observed then must come with a definite, final outcome",
        "virtual OS contracts: vf/simos.py (pipes, processes, sockets, threads, events, clock)",
        "without a fault the parent gets to see the dead worker in one of three ways: wait(timeout); polling is_alive(); terminate() long after the child ended",
        "values/exceptions come from a menu (vf/targets.py) incl. an exception class that cannot be rebuilt and a value that cannot be loaded on the parent side",
    ],
    outside=["sub-statement landing points", "kills inside C code", "real kernel buffering and timing", "result larger than the pipe buffer (C02)"],
    stubs=["vf/simos.py: FakeThread, FakeEvent, FakeProcess, FakeConn, FakeSocket, FakeQueue, os/signal/time modules"],
    real_replay=real_replay,
    technique="CrossHair/z3 bounded symbolic execution over a deterministic simulation of the real worker code",
)
