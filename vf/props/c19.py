"""C19 — active_children() tracks exactly the live workers.

One inductive step from an arbitrary registry state: the registry (whatever class-level list
pyworkers keeps) holds n distinct workers with *symbolic* liveness; one symbolic operation is
applied through the real Worker code; afterwards active_children() must yield exactly the live
ones, each once, and no class-level list of Worker may still hold a dead worker.
"""
from collections import OrderedDict

from pyworkers.worker import Worker, autoclose_active_children
import pyworkers.worker as workermod

from ..rt import Outcome, ev, notrace, sym_eq, conc
from ..xh import Harness
from ..main import PropSpec

MAXN = 6


class SW(Worker):
    """Stub worker kind: real Worker.__init__/registration, liveness decided by the harness."""

    def __init__(self, alive, coop=True, start_ok=True, **kw):
        self._alive = alive
        self._coop = coop
        self._start_ok = start_ok
        self.calls = []
        super().__init__(_noop, **kw)

    def _start(self):
        if self._start_ok:
            self._dead = False
        else:
            self._alive = False

    @property
    def is_child(self):
        return False

    def is_alive(self):
        if not self._started or self._dead:      # as the real kinds: not alive before _start() has produced a child
            return False
        return self._alive

    def close(self):
        self.calls.append("close")

    def wait(self, timeout=None):
        self.calls.append("wait")
        if not self.is_alive():
            return True
        if self._coop is True or sym_eq(self._coop, 1):
            self._alive = False
            return True
        return False

    def terminate(self, timeout=1, force=True):
        self.calls.append("terminate")
        self._alive = False
        return True

    def _get_result(self):
        return (True, None) if not self.is_alive() else None


def _noop():
    return None


def _registry_lists():
    """Every class-level list reachable from Worker (survives renames of the registry)."""
    out = []
    for k, v in vars(Worker).items():
        if isinstance(v, list):
            out.append((k, v))
    return out


def _reset():
    for k, v in list(vars(Worker).items()):
        if isinstance(v, list):
            if k == "_active_children":
                del v[:]
            else:
                type.__delattr__(Worker, k)
    if "_active_children" not in vars(Worker):
        type.__setattr__(Worker, "_active_children", [])


def _ident_in(x, seq):
    for y in seq:
        if y is x:
            return True
    return False


def _check_view(workers, label):
    """active_children() must yield exactly the live workers, each once."""
    got = list(Worker.active_children())
    live = [w for w in workers if w.is_alive()]
    for g in got:
        if not _ident_in(g, workers):
            return "%s.yields-foreign" % label
        if not g.is_alive():
            return "%s.yields-dead" % label
    for w in live:
        c = 0
        for g in got:
            if g is w:
                c += 1
        if c == 0:
            return "%s.misses-live" % label
        if c > 1:
            return "%s.duplicate" % label
    # retention: after the call no class-level list of Worker may hold a dead worker
    for name, lst in _registry_lists():
        for x in lst:
            if isinstance(x, Worker) and not x.is_alive():
                return "%s.retains-dead" % label
    return None


def h_step(n, a0, a1, a2, a3, a4, a5, op, idx, c0, c1, c2, c3, c4, c5, pruned=0):
    with notrace():
        return _h_step(n, a0, a1, a2, a3, a4, a5, op, idx, c0, c1, c2, c3, c4, c5, pruned)


def _h_step(n, a0, a1, a2, a3, a4, a5, op, idx, c0, c1, c2, c3, c4, c5, pruned):
    _reset()
    n, op = conc(n, MAXN + 1), conc(op, 8)
    if op in (4, 5):
        idx = conc(idx, MAXN)      # lazily: an unused symbolic parameter must not fork paths
    alive = [a0, a1, a2, a3, a4, a5][:n]
    coop = [c0, c1, c2, c3, c4, c5][:n]
    workers = []
    for i in range(n):
        w = SW(True, coop=coop[i], run=True)     # kept symbolic; decided lazily in wait()
        workers.append(w)
    # arbitrary reachable pre-state: registered while alive, some have died since
    ndead = 0
    for i in range(n):
        if sym_eq(alive[i], 0):
            workers[i]._alive = False
            ndead += 1
    if ndead and sym_eq(pruned, 1):
        # an earlier active_children() call has already dropped the dead workers from the registry (reachable pre-state)
        list(Worker.active_children())
        ev("pruned")
    interesting = ndead > 0
    ev("n", n, "op", op)
    if op == 0:
        pass
    elif op == 1:            # create a running worker
        workers.append(SW(True, run=True))
    elif op == 2:            # create a worker that is not run
        w = SW(True, run=False)
        workers.append(w)
        if w.is_alive():
            return Outcome("c19.notrun-alive", interesting)
    elif op == 3:            # worker whose start fails to produce a live child
        workers.append(SW(True, start_ok=False, run=True))
    elif op == 4:            # worker idx dies now
        if idx < n:
            workers[idx]._alive = False
            interesting = True
    elif op == 5:            # restart-style re-initialisation of worker idx (must not register twice)
        if idx < n:
            w = workers[idx]
            al = w._alive
            Worker.__init__(w, _noop, run=True, _is_restart=True)
            w._alive = True
            interesting = True
    elif op == 6 or op == 7:  # autoclose block (7: body raises)
        try:
            with autoclose_active_children():
                if op == 7:
                    raise KeyError("body")
        except KeyError:
            pass
        for w in workers:
            if w.is_alive():
                return Outcome("c19.autoclose-leaves-live", True)
        interesting = True
    sig = _check_view(workers, "c19.view1")
    if sig is None:
        sig = _check_view(workers, "c19.view2")   # idempotent
    return Outcome(sig, interesting)


_params = OrderedDict([("n", (0, MAXN))] + [("a%d" % i, (0, 1)) for i in range(MAXN)] +
                      [("op", (0, 7)), ("idx", (0, MAXN - 1))] + [("c%d" % i, (0, 1)) for i in range(MAXN)] + [("pruned", (0, 1))])


def _fix_unused(n):
    d = {}
    for i in range(n, MAXN):
        d["a%d" % i] = 1
        d["c%d" % i] = 1
    return d


def _filter(fixed):
    n = fixed["n"]
    return all(fixed.get("a%d" % i, 1) == 1 and fixed.get("c%d" % i, 1) == 1 for i in range(n, MAXN))


HARNESS = Harness(
    "step", "vf.props.c19:h_step", _params,
    tiers={
        "quick": {"ranges": {"n": (0, 4)}, "partition": ["n", "op"], "timeout": 120,
                  "fixed": {"a4": 1, "a5": 1, "c4": 1, "c5": 1}, "twin_fixed": {"n": 2, "op": 0}},
        "thorough": {"partition": ["n", "op"], "timeout": 900, "twin_fixed": {"n": 2, "op": 0}},
    },
    functions=["pyworkers.worker:Worker.active_children", "pyworkers.worker:Worker.register_child",
               "pyworkers.worker:Worker.__init__", "pyworkers.worker:autoclose_active_children",
               "pyworkers.utils:SupportClassPropertiesMeta.__setattr__"],
)


def real_replay(harness, args, failure):
    """Real ThreadWorkers: workers flagged dead finish, then active_children() is compared."""
    import threading
    from pyworkers.thread import ThreadWorker
    if harness == "unref":
        return _real_replay_unref(args)
    if harness != "step":
        return None, "no real-OS replay for harness %s" % harness
    _reset()
    n = args["n"]
    evs = [threading.Event() for _ in range(n)]
    ws = [ThreadWorker(evs[i].wait, run=True) for i in range(n)]
    try:
        for i in range(n):
            if args["a%d" % i] == 0 or (args["op"] == 4 and args["idx"] == i):
                evs[i].set()
                ws[i].wait()
        if args["op"] in (6, 7):
            for e in evs:
                e.set()
        sig = _check_view(ws, "c19.view1") if args["op"] in (0, 4) else None
        if args["op"] not in (0, 4):
            return None, "real-thread replay only covers ops 0 and 4"
        return (sig is not None), "real ThreadWorker run gives %r" % (sig,)
    finally:
        for e in evs:
            e.set()
        for w in ws:
            w.wait()
        _reset()


def _real_replay_unref(args):
    """A real fire-and-forget ProcessWorker: its child process is running, nobody holds the worker object."""
    import gc
    import time
    import multiprocessing as mp
    from pyworkers.process import ProcessWorker
    if args.get("op") != 0 or not any(args.get("a%d" % i) for i in range(args.get("n", 0))):
        return None, "real-process replay covers the plain view with at least one live worker"
    _reset()

    def spawn():
        ProcessWorker(time.sleep, args=[8])
    spawn()
    gc.collect()
    time.sleep(0.5)
    procs = [p for p in mp.active_children() if p.is_alive()]
    got = list(Worker.active_children())
    try:
        return (bool(procs) and not got), "real fire-and-forget ProcessWorker: %d live child process(es), active_children() yields %d worker(s)" % (len(procs), len(got))
    finally:
        for w in got:
            w.terminate()
        for p in procs:
            p.terminate()
        _reset()


SPEC = PropSpec(
    "C19", [HARNESS],
    assumptions=[
        "pre-state: registry = list of n distinct workers registered through the real Worker.__init__, liveness symbolic "
        "(representation invariant: no duplicates, only workers started by this process)",
        "worker kind is a stub subclass of Worker (real __init__/register_child/active_children/autoclose code); liveness is "
        "what the stub says; cooperative workers die on wait(), the others on terminate()",
        "single-threaded callers; the lock is taken on every path but concurrency itself is not explored",
    ],
    outside=["concurrent active_children() calls from several threads", "histories are covered by one inductive step, not unrolled"],
    stubs=["SW(Worker): _start/is_alive/wait/terminate/close"],
    real_replay=real_replay,
    technique="CrossHair/z3 bounded symbolic execution: one inductive step over an arbitrary registry",
)


# ---------------------------------------------------------------------------------------------
# two threads: another thread registers a worker while active_children() is polling liveness
class SimLock:
    """threading.Lock for the simulation (the real lock would block the OS thread that holds the baton)."""

    def __init__(self):
        self.owner = None

    def acquire(self, blocking=True, timeout=-1):
        from .. import sim as simmod
        s = simmod.cur()
        s.block(lambda: self.owner is None, None, what="Lock.acquire")
        self.owner = s.me()
        return True

    def release(self):
        self.owner = None

    def __enter__(self):
        self.acquire()
        return self

    def __exit__(self, *a):
        self.release()


def h_conc(n, a0, a1, a2, a3, j, bop):
    """Actor B creates (bop=0) or restarts-and-revives (bop=1) a worker at the moment actor A's
    active_children() makes its j-th liveness poll."""
    from .. import sim as simmod, vos
    with notrace():
        n_, j_, bop_ = conc(n, 5), conc(j, 5), conc(bop, 3)
        alive = [a0, a1, a2, a3][:n_]
        _reset()
        s = simmod.new_sim()
        real_lock = Worker._children_lock
        type.__setattr__(Worker, "_children_lock", SimLock())
        polls = [0]
        created = []

        class CW(SW):
            def is_alive(self_w):
                if s.me() is s.main and polling[0]:
                    i = polls[0]
                    polls[0] += 1
                    if i == j_:
                        s.yield_()
                return SW.is_alive(self_w)

            def _start(self_w):
                if slow_start[0]:
                    slow_start[0] = False
                    s.yield_()              # starting a child takes time: other threads run meanwhile
                SW._start(self_w)
        polling = [False]
        slow_start = [False]
        try:
            workers = [CW(True, run=True) for _ in range(n_)]
            for i in range(n_):
                if sym_eq(alive[i], 0):
                    workers[i]._alive = False

            def other():
                if bop_ == 0:
                    created.append(CW(True, run=True))
                elif workers:
                    # a persistent worker is restarted by the other thread (restart re-runs __init__ with _is_restart=True)
                    w = workers[0]
                    Worker.__init__(w, _noop, run=True, _is_restart=True)
                    w._alive = True
            if bop_ == 2:
                # the main thread creates a worker whose start takes a while; meanwhile the other thread calls active_children()
                def other():
                    list(Worker.active_children())
            b = s.spawn(other, "other-thread")
            b.priority = 1                   # runs only when the main actor yields or blocks
            ev("conc", n_, j_, bop_)
            if bop_ == 2:
                slow_start[0] = True
                created.append(CW(True, run=True))
            polling[0] = True
            try:
                first = list(Worker.active_children())
            except vos.Hang:
                return Outcome("c19.conc.active_children-deadlocks", True)
            polling[0] = False
            s.block(lambda: b.state == "done", 5, what="other-thread-done")
            allw = workers + [w for w in created if w is not None]
            sig = _check_view(allw, "c19.conc.view")
            return Outcome(sig, polls[0] > j_)
        finally:
            type.__setattr__(Worker, "_children_lock", real_lock)
            errs = s.shutdown()
            simmod.CUR[0] = None
            _reset()
            if errs:
                raise RuntimeError("simulation kernel errors: %r" % (errs,))


H_CONC = Harness(
    "conc", "vf.props.c19:h_conc",
    OrderedDict([("n", (0, 4))] + [("a%d" % i, (0, 1)) for i in range(4)] + [("j", (0, 4)), ("bop", (0, 2))]),
    tiers={"quick": {"partition": ["n", "bop"], "filter": (lambda f: f["bop"] != 1), "timeout": 120, "twin_fixed": {"n": 2, "bop": 0}},
           "thorough": {"partition": ["n", "bop"], "timeout": 300, "twin_fixed": {"n": 2, "bop": 0}}},
    functions=["pyworkers.worker:Worker.active_children", "pyworkers.worker:Worker.register_child", "pyworkers.worker:Worker.__init__"],
)
SPEC.harnesses.append(H_CONC)
SPEC.assumptions.append("harness 'conc': a second thread (an actor of vf/sim.py) registers a new worker at the moment active_children() makes its j-th liveness "
                        "poll; Worker._children_lock is replaced by a simulation-aware lock with the same semantics")
SPEC.outside[:] = ["more than two threads; interleavings finer than 'between two liveness polls'", "histories are covered by one inductive step, not unrolled"]


# ---------------------------------------------------------------------------------------------
# fire-and-forget workers: the caller keeps no reference to the workers it creates; whether a worker is alive is a fact about its
# child (here: a side table), not about who still points to the Python object
LIVE = {}


class TW(Worker):
    def __init__(self, tag, **kw):
        self.tag = tag
        super().__init__(_noop, **kw)

    def _start(self):
        self._dead = False

    @property
    def is_child(self):
        return False

    def is_alive(self):
        if not self._started or self._dead:
            return False
        return LIVE.get(self.tag, False)

    def close(self):
        pass

    def wait(self, timeout=None):
        LIVE[self.tag] = False
        return True

    def terminate(self, timeout=1, force=True):
        LIVE[self.tag] = False
        return True

    def _get_result(self):
        return (True, None) if not self.is_alive() else None


def _spawn_unreferenced(n):
    for i in range(n):
        LIVE[i] = True
        TW(i, run=True)          # the result is dropped on purpose


def h_unref(n, a0, a1, a2, a3, op):
    import gc
    with notrace():
        _reset()
        LIVE.clear()
        try:
            n_, op_ = conc(n, 5), conc(op, 2)
            alive = [a0, a1, a2, a3][:n_]
            _spawn_unreferenced(n_)
            for i in range(n_):
                if sym_eq(alive[i], 0):
                    LIVE[i] = False
            gc.collect()
            ev("unref", n_, op_, str(sorted(LIVE.items())))
            if op_ == 1:
                with autoclose_active_children():
                    pass
                if any(LIVE.values()):
                    return Outcome("c19.unref.autoclose-leaves-live", True)
                return Outcome(None, n_ > 0)
            for view in ("view1", "view2"):
                got = sorted(w.tag for w in Worker.active_children())
                want = sorted(t for t, a in LIVE.items() if a)
                if len(set(got)) != len(got):
                    return Outcome("c19.unref.%s.duplicate" % view, True)
                if [t for t in want if t not in got]:
                    return Outcome("c19.unref.%s.misses-live" % view, True, "got=%r want=%r" % (got, want))
                if [t for t in got if t not in want]:
                    return Outcome("c19.unref.%s.yields-dead" % view, True, "got=%r want=%r" % (got, want))
            return Outcome(None, n_ > 0)
        finally:
            _reset()
            LIVE.clear()


H_UNREF = Harness(
    "unref", "vf.props.c19:h_unref",
    OrderedDict([("n", (0, 4))] + [("a%d" % i, (0, 1)) for i in range(4)] + [("op", (0, 1))]),
    tiers={"quick": {"partition": ["n", "op"], "timeout": 120, "twin_fixed": {"n": 2, "op": 0}},
           "thorough": {"partition": ["n", "op"], "timeout": 120, "twin_fixed": {"n": 2, "op": 0}}},
    functions=["pyworkers.worker:Worker.active_children", "pyworkers.worker:Worker.register_child", "pyworkers.worker:Worker.__init__",
               "pyworkers.worker:autoclose_active_children"],
)
SPEC.harnesses.append(H_UNREF)
SPEC.assumptions.append("harness 'unref': the caller keeps no reference to the workers it creates (liveness lives in a side table keyed by a tag); "
                        "the garbage collector runs before active_children() / the autoclose block")
