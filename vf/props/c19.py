"""C19 — active_children() tracks exactly the live workers.

One inductive step from an arbitrary registry state: the registry (whatever class-level list
pyworkers keeps) holds n distinct workers with *symbolic* liveness; one symbolic operation is
applied through the real Worker code; afterwards active_children() must yield exactly the live
ones, each once, and no class-level list of Worker may still hold a dead worker.
"""
from collections import OrderedDict

from pyworkers.worker import Worker, autoclose_active_children
import pyworkers.worker as workermod

from ..rt import Outcome, ev, notrace, sym_eq, conc
from ..xh import Harness
from ..main import PropSpec

MAXN = 6


class SW(Worker):
    """Stub worker kind: real Worker.__init__/registration, liveness decided by the harness."""

    def __init__(self, alive, coop=True, start_ok=True, **kw):
        self._alive = alive
        self._coop = coop
        self._start_ok = start_ok
        self.calls = []
        super().__init__(_noop, **kw)

    def _start(self):
        if self._start_ok:
            self._dead = False
        else:
            self._alive = False

    @property
    def is_child(self):
        return False

    def is_alive(self):
        if not self._started:
            return False
        return self._alive

    def close(self):
        self.calls.append("close")

    def wait(self, timeout=None):
        self.calls.append("wait")
        if not self.is_alive():
            return True
        if self._coop is True or sym_eq(self._coop, 1):
            self._alive = False
            return True
        return False

    def terminate(self, timeout=1, force=True):
        self.calls.append("terminate")
        self._alive = False
        return True

    def _get_result(self):
        return (True, None) if not self.is_alive() else None


def _noop():
    return None


def _registry_lists():
    """Every class-level list reachable from Worker (survives renames of the registry)."""
    out = []
    for k, v in vars(Worker).items():
        if isinstance(v, list):
            out.append((k, v))
    return out


def _reset():
    for k, v in list(vars(Worker).items()):
        if isinstance(v, list):
            if k == "_active_children":
                del v[:]
            else:
                type.__delattr__(Worker, k)
    if "_active_children" not in vars(Worker):
        type.__setattr__(Worker, "_active_children", [])


def _ident_in(x, seq):
    for y in seq:
        if y is x:
            return True
    return False


def _check_view(workers, label):
    """active_children() must yield exactly the live workers, each once."""
    got = list(Worker.active_children())
    live = [w for w in workers if w.is_alive()]
    for g in got:
        if not _ident_in(g, workers):
            return "%s.yields-foreign" % label
        if not g.is_alive():
            return "%s.yields-dead" % label
    for w in live:
        c = 0
        for g in got:
            if g is w:
                c += 1
        if c == 0:
            return "%s.misses-live" % label
        if c > 1:
            return "%s.duplicate" % label
    # retention: after the call no class-level list of Worker may hold a dead worker
    for name, lst in _registry_lists():
        for x in lst:
            if isinstance(x, Worker) and not x.is_alive():
                return "%s.retains-dead" % label
    return None


def h_step(n, a0, a1, a2, a3, a4, a5, op, idx, c0, c1, c2, c3, c4, c5):
    with notrace():
        return _h_step(n, a0, a1, a2, a3, a4, a5, op, idx, c0, c1, c2, c3, c4, c5)


def _h_step(n, a0, a1, a2, a3, a4, a5, op, idx, c0, c1, c2, c3, c4, c5):
    _reset()
    n, op = conc(n, MAXN + 1), conc(op, 8)
    if op in (4, 5):
        idx = conc(idx, MAXN)      # lazily: an unused symbolic parameter must not fork paths
    alive = [a0, a1, a2, a3, a4, a5][:n]
    coop = [c0, c1, c2, c3, c4, c5][:n]
    workers = []
    for i in range(n):
        w = SW(True, coop=coop[i], run=True)     # kept symbolic; decided lazily in wait()
        workers.append(w)
    # arbitrary reachable pre-state: registered while alive, some have died since
    ndead = 0
    for i in range(n):
        if sym_eq(alive[i], 0):
            workers[i]._alive = False
            ndead += 1
    interesting = ndead > 0
    ev("n", n, "op", op)
    if op == 0:
        pass
    elif op == 1:            # create a running worker
        workers.append(SW(True, run=True))
    elif op == 2:            # create a worker that is not run
        w = SW(True, run=False)
        workers.append(w)
        if w.is_alive():
            return Outcome("c19.notrun-alive", interesting)
    elif op == 3:            # worker whose start fails to produce a live child
        workers.append(SW(True, start_ok=False, run=True))
    elif op == 4:            # worker idx dies now
        if idx < n:
            workers[idx]._alive = False
            interesting = True
    elif op == 5:            # restart-style re-initialisation of worker idx (must not register twice)
        if idx < n:
            w = workers[idx]
            al = w._alive
            Worker.__init__(w, _noop, run=True, _is_restart=True)
            w._alive = True
            interesting = True
    elif op == 6 or op == 7:  # autoclose block (7: body raises)
        try:
            with autoclose_active_children():
                if op == 7:
                    raise KeyError("body")
        except KeyError:
            pass
        for w in workers:
            if w.is_alive():
                return Outcome("c19.autoclose-leaves-live", True)
        interesting = True
    sig = _check_view(workers, "c19.view1")
    if sig is None:
        sig = _check_view(workers, "c19.view2")   # idempotent
    return Outcome(sig, interesting)


_params = OrderedDict([("n", (0, MAXN))] + [("a%d" % i, (0, 1)) for i in range(MAXN)] +
                      [("op", (0, 7)), ("idx", (0, MAXN - 1))] + [("c%d" % i, (0, 1)) for i in range(MAXN)])


def _fix_unused(n):
    d = {}
    for i in range(n, MAXN):
        d["a%d" % i] = 1
        d["c%d" % i] = 1
    return d


def _filter(fixed):
    n = fixed["n"]
    return all(fixed.get("a%d" % i, 1) == 1 and fixed.get("c%d" % i, 1) == 1 for i in range(n, MAXN))


HARNESS = Harness(
    "step", "vf.props.c19:h_step", _params,
    tiers={
        "quick": {"ranges": {"n": (0, 4)}, "partition": ["n", "op"], "timeout": 120,
                  "fixed": {"a4": 1, "a5": 1, "c4": 1, "c5": 1}, "twin_fixed": {"n": 2, "op": 0}},
        "thorough": {"partition": ["n", "op"], "timeout": 900, "twin_fixed": {"n": 2, "op": 0}},
    },
    functions=["pyworkers.worker:Worker.active_children", "pyworkers.worker:Worker.register_child",
               "pyworkers.worker:Worker.__init__", "pyworkers.worker:autoclose_active_children",
               "pyworkers.utils:SupportClassPropertiesMeta.__setattr__"],
)


def real_replay(harness, args, failure):
    """Real ThreadWorkers: workers flagged dead finish, then active_children() is compared."""
    import threading
    from pyworkers.thread import ThreadWorker
    _reset()
    n = args["n"]
    evs = [threading.Event() for _ in range(n)]
    ws = [ThreadWorker(evs[i].wait, run=True) for i in range(n)]
    try:
        for i in range(n):
            if args["a%d" % i] == 0 or (args["op"] == 4 and args["idx"] == i):
                evs[i].set()
                ws[i].wait()
        if args["op"] in (6, 7):
            for e in evs:
                e.set()
        sig = _check_view(ws, "c19.view1") if args["op"] in (0, 4) else None
        if args["op"] not in (0, 4):
            return None, "real-thread replay only covers ops 0 and 4"
        return (sig is not None), "real ThreadWorker run gives %r" % (sig,)
    finally:
        for e in evs:
            e.set()
        for w in ws:
            w.wait()
        _reset()


SPEC = PropSpec(
    "C19", [HARNESS],
    assumptions=[
        "pre-state: registry = list of n distinct workers registered through the real Worker.__init__, liveness symbolic "
        "(representation invariant: no duplicates, only workers started by this process)",
        "worker kind is a stub subclass of Worker (real __init__/register_child/active_children/autoclose code); liveness is "
        "what the stub says; cooperative workers die on wait(), the others on terminate()",
        "single-threaded callers; the lock is taken on every path but concurrency itself is not explored",
    ],
    outside=["concurrent active_children() calls from several threads", "histories are covered by one inductive step, not unrolled"],
    stubs=["SW(Worker): _start/is_alive/wait/terminate/close"],
    real_replay=real_replay,
    technique="CrossHair/z3 bounded symbolic execution: one inductive step over an arbitrary registry",
)
