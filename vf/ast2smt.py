"""ast2smt — a small symbolic interpreter over the Python AST of pyworkers.remote.recv_msg
(and any same-module / nested helper it calls) that builds z3 terms instead of values.

* Python ints are z3 Ints (unbounded, like Python's); the 4-byte header value is constrained to
  [0, 2**32).
* bytes objects are *stream slices* (start, length); concatenation is only meaningful for adjacent
  slices — a feasible non-adjacent concatenation is itself reported (the message would be wrong).
* sock.recv(n): if bytes are left before the end of the stream E, returns k bytes for a fresh
  symbolic k with 1 <= k <= min(n, E - pos); at the end returns b'' (FIN) or raises
  ConnectionResetError (RST).
* struct.unpack('!I', b): struct.error unless len(b) == 4, else the uninterpreted header value
  hdr(start) (pinned to L_j where start is the offset of message j).
* remote_pickle.loads(data): opaque message made of the slice it was given.
* loops are unrolled up to K iterations; a path that needs more is reported as outside the bound,
  never as success.  An iteration that leaves every variable and the stream position unchanged is a
  proven livelock (the function is deterministic).
* exceptions are Python exceptions of the interpreter carrying the *real* class objects, so
  ``except (A, B)`` is matched with the real class hierarchy.

Anything outside the supported statement set raises NotEncodable; the check then reports the
Tier-B obligations as inconclusive (no alarm).
"""
import ast
import inspect
import struct
import textwrap
import time

import z3


class NotEncodable(Exception):
    pass


# ---- symbolic values -------------------------------------------------------------------------
class SInt:
    def __init__(self, e):
        self.e = e if isinstance(e, z3.ExprRef) else z3.IntVal(e)


class SBool:
    def __init__(self, e):
        self.e = e if isinstance(e, z3.ExprRef) else z3.BoolVal(bool(e))


class SBytes:
    def __init__(self, start, length):
        self.start = start if isinstance(start, z3.ExprRef) else z3.IntVal(start)
        self.length = length if isinstance(length, z3.ExprRef) else z3.IntVal(length)


class STuple:
    def __init__(self, items):
        self.items = list(items)


class SNone:
    pass


class SConst:
    def __init__(self, v):
        self.v = v


class SMsg:
    """what remote_pickle.loads returned: the message encoded by stream[start:start+length]"""
    def __init__(self, data):
        self.data = data


class SExc:
    def __init__(self, cls, cause=None):
        self.cls = cls
        self.cause = cause


class SFunc:
    def __init__(self, node, env, glob):
        self.node, self.env, self.glob = node, env, glob


class SBound:
    def __init__(self, obj, name):
        self.obj, self.name = obj, name


class PyRaise(Exception):
    def __init__(self, exc):
        self.exc = exc


class _Return(Exception):
    def __init__(self, v):
        self.v = v


class _Break(Exception):
    pass


class _Continue(Exception):
    pass


class Livelock(Exception):
    pass


class UnwindExceeded(Exception):
    pass


class PathInfeasible(Exception):
    pass


HDR = z3.Function("hdr", z3.IntSort(), z3.IntSort())


# ---- socket model -----------------------------------------------------------------------------
class SockModel:
    def __init__(self, interp, E, rst, script=None):
        self.I = interp
        self.pos = z3.IntVal(0)
        self.E = E
        self.rst = rst            # z3 Bool
        self.nrecv = 0
        self.ks = []
        self.script = script      # concrete validation mode: list of cut choices (0 = all, i = i bytes)

    def recv(self, n):
        I = self.I
        if not isinstance(n, SInt):
            raise NotEncodable("recv() argument is not an int")
        self.nrecv += 1
        if I.branch(n.e < 0):
            raise PyRaise(SExc(ValueError))
        if I.branch(n.e == 0):
            return SBytes(self.pos, 0)
        if I.branch(self.pos < self.E):
            if self.script is not None:
                nv = I.concrete(n.e)
                avail = I.concrete(self.E - self.pos)
                m = min(nv, avail)
                c = self.script.pop(0) if self.script else 0
                kk = m if (c == 0 or c >= m) else c
                k = z3.IntVal(kk)
            else:
                k = z3.Int("k%d" % len(self.ks))
                I.assume(z3.And(k >= 1, k <= n.e, k <= self.E - self.pos))
            self.ks.append(k)
            b = SBytes(self.pos, k)
            self.pos = z3.simplify(self.pos + k)
            return b
        if I.branch(self.rst):
            raise PyRaise(SExc(ConnectionResetError))
        return SBytes(self.pos, 0)

    def snapshot(self):
        return self.pos


# ---- interpreter ------------------------------------------------------------------------------
class Interp:
    def __init__(self, K, timeout_ms=20000):
        self.K = K
        self.solver = z3.Solver()
        self.solver.set("timeout", timeout_ms)
        self.base = []
        self.prefix = []
        self.decisions = []
        self.pending = []
        self.pc = []
        self.queries = 0
        self.solver_s = 0.0
        self.unknowns = 0
        self.smt2_queries = []
        self.record_unsat = False
        self.record_limit = 400
        self.sock = None

    # -- path management
    def start_path(self, prefix):
        self.prefix = list(prefix)
        self.decisions = []
        self.pc = []
        self.solver.reset()
        for b in self.base:
            self.solver.add(b)

    def check(self, *extra):
        t0 = time.time()
        self.queries += 1
        self.solver.push()
        for e in extra:
            self.solver.add(e)
        r = self.solver.check()
        if r == z3.unsat and self.record_unsat and len(self.smt2_queries) < self.record_limit:
            self.smt2_queries.append(self.solver.to_smt2())
        self.solver.pop()
        self.solver_s += time.time() - t0
        if r == z3.unknown:
            self.unknowns += 1
        return r

    def feasible(self, cond):
        return self.check(cond) != z3.unsat      # unknown counts as feasible (explored, flagged)

    def assume(self, cond):
        self.pc.append(cond)
        self.solver.add(cond)

    def branch(self, cond):
        if isinstance(cond, bool):
            return cond
        cond = z3.simplify(cond)
        if z3.is_true(cond):
            return True
        if z3.is_false(cond):
            return False
        i = len(self.decisions)
        if i < len(self.prefix):
            d = self.prefix[i]
        else:
            can_t = self.feasible(cond)
            can_f = self.feasible(z3.Not(cond))
            if can_t and can_f:
                d = True
                self.pending.append(self.decisions + [False])
            elif can_t:
                d = True
            elif can_f:
                d = False
            else:
                raise PathInfeasible()
        self.decisions.append(d)
        self.assume(cond if d else z3.Not(cond))
        return d

    def concrete(self, e):
        if self.check() != z3.sat:
            raise NotEncodable("no model in concrete mode")
        m = self.solver.model()
        return m.eval(e, model_completion=True).as_long()

    # -- values
    def truth(self, v):
        if isinstance(v, SBool):
            return self.branch(v.e)
        if isinstance(v, SInt):
            return self.branch(v.e != 0)
        if isinstance(v, SBytes):
            return self.branch(v.length != 0)
        if isinstance(v, SNone):
            return False
        if isinstance(v, STuple):
            return len(v.items) > 0
        if isinstance(v, SConst):
            return bool(v.v)
        if isinstance(v, (SMsg, SExc, SFunc, SBound, SockModel)):
            return True
        raise NotEncodable("truth of %r" % (v,))

    def lift(self, v):
        if isinstance(v, bool):
            return SBool(v)
        if isinstance(v, int):
            return SInt(v)
        if v is None:
            return SNone()
        if isinstance(v, bytes):
            if len(v) == 0:
                return SBytes(0, 0)
            raise NotEncodable("non-empty bytes literal")
        if isinstance(v, tuple):
            return STuple([self.lift(x) for x in v])
        return SConst(v)

    # -- function calls
    def call_function(self, fn, args, kwargs=None):
        """fn: real Python function object (source available)."""
        src = textwrap.dedent(inspect.getsource(fn))
        node = ast.parse(src).body[0]
        if not isinstance(node, ast.FunctionDef):
            raise NotEncodable("not a function")
        return self.call_node(node, {}, fn.__globals__, args, kwargs or {})

    def call_node(self, node, closure, glob, args, kwargs):
        env = dict(closure)
        a = node.args
        if a.vararg or a.kwarg or a.posonlyargs or a.kwonlyargs:
            raise NotEncodable("unsupported signature")
        names = [x.arg for x in a.args]
        defaults = [None] * (len(names) - len(a.defaults)) + list(a.defaults)
        for i, n in enumerate(names):
            if i < len(args):
                env[n] = args[i]
            elif n in kwargs:
                env[n] = kwargs[n]
            elif defaults[i] is not None:
                env[n] = self.eval(defaults[i], env, glob)
            else:
                raise NotEncodable("missing argument %s" % n)
        try:
            self.exec_block(node.body, env, glob)
        except _Return as r:
            return r.v
        return SNone()

    # -- statements
    def exec_block(self, stmts, env, glob):
        for s in stmts:
            self.exec(s, env, glob)

    def exec(self, s, env, glob):
        if isinstance(s, ast.Expr):
            if isinstance(s.value, ast.Constant):
                return
            self.eval(s.value, env, glob)
        elif isinstance(s, ast.Assign):
            v = self.eval(s.value, env, glob)
            for t in s.targets:
                self.assign(t, v, env)
        elif isinstance(s, ast.AugAssign):
            if not isinstance(s.target, ast.Name):
                raise NotEncodable("augassign target")
            cur = self.lookup(s.target.id, env, glob)
            env[s.target.id] = self.binop(s.op, cur, self.eval(s.value, env, glob))
        elif isinstance(s, ast.Return):
            raise _Return(self.eval(s.value, env, glob) if s.value is not None else SNone())
        elif isinstance(s, ast.Pass):
            return
        elif isinstance(s, ast.Break):
            raise _Break()
        elif isinstance(s, ast.Continue):
            raise _Continue()
        elif isinstance(s, ast.If):
            if self.truth(self.eval(s.test, env, glob)):
                self.exec_block(s.body, env, glob)
            else:
                self.exec_block(s.orelse, env, glob)
        elif isinstance(s, ast.While):
            self.exec_while(s, env, glob)
        elif isinstance(s, ast.Try):
            self.exec_try(s, env, glob)
        elif isinstance(s, ast.Raise):
            if s.exc is None:
                cur = env.get("__current_exc__")
                if cur is None:
                    raise NotEncodable("bare raise outside handler")
                raise PyRaise(cur)
            ev = self.eval(s.exc, env, glob)
            if isinstance(ev, SConst) and isinstance(ev.v, type) and issubclass(ev.v, BaseException):
                ev = SExc(ev.v)
            if not isinstance(ev, SExc):
                raise NotEncodable("raise of non-exception")
            if s.cause is not None:
                c = self.eval(s.cause, env, glob)
                ev = SExc(ev.cls, c)
            raise PyRaise(ev)
        elif isinstance(s, ast.FunctionDef):
            env[s.name] = SFunc(s, env, glob)
        elif isinstance(s, ast.Assert):
            if not self.truth(self.eval(s.test, env, glob)):
                raise PyRaise(SExc(AssertionError))
        elif isinstance(s, (ast.Import, ast.ImportFrom, ast.Global, ast.Nonlocal)):
            if isinstance(s, ast.Nonlocal):
                raise NotEncodable("nonlocal")
            return
        else:
            raise NotEncodable("statement %s" % type(s).__name__)

    def assign(self, t, v, env):
        if isinstance(t, ast.Name):
            env[t.id] = v
        elif isinstance(t, (ast.Tuple, ast.List)):
            if not isinstance(v, STuple) or len(v.items) != len(t.elts):
                raise NotEncodable("unpacking")
            for tt, vv in zip(t.elts, v.items):
                self.assign(tt, vv, env)
        else:
            raise NotEncodable("assignment target %s" % type(t).__name__)

    def _state(self, env, sock):
        out = []
        for k in sorted(env):
            v = env[k]
            if isinstance(v, SInt):
                out.append((k, z3.simplify(v.e)))
            elif isinstance(v, SBytes):
                out.append((k, z3.simplify(v.start)))
                out.append((k, z3.simplify(v.length)))
            elif isinstance(v, SBool):
                out.append((k, z3.simplify(v.e)))
        if sock is not None:
            out.append(("<pos>", z3.simplify(sock.pos)))
            out.append(("<n>", None))
        return out

    def exec_while(self, s, env, glob):
        sock = self.sock
        it = 0
        prev = None
        while True:
            if not self.truth(self.eval(s.test, env, glob)):
                self.exec_block(s.orelse, env, glob)
                return
            cur = self._state(env, sock)
            if prev is not None and len(prev) == len(cur) and all(
                    a[0] == b[0] and (a[1] is b[1] or (a[1] is not None and b[1] is not None and a[1].eq(b[1])))
                    for a, b in zip(prev, cur)):
                raise Livelock()
            prev = cur
            it += 1
            if it > self.K:
                raise UnwindExceeded()
            try:
                self.exec_block(s.body, env, glob)
            except _Break:
                return
            except _Continue:
                continue

    def exec_try(self, s, env, glob):
        try:
            try:
                self.exec_block(s.body, env, glob)
            except PyRaise as pr:
                for h in s.handlers:
                    if self.handler_matches(h, pr.exc, env, glob):
                        if h.name:
                            env[h.name] = pr.exc
                        saved = env.get("__current_exc__")
                        env["__current_exc__"] = pr.exc
                        try:
                            self.exec_block(h.body, env, glob)
                        finally:
                            env["__current_exc__"] = saved
                        break
                else:
                    raise
            else:
                self.exec_block(s.orelse, env, glob)
        finally:
            # NB: a finally block that itself raises/returns replaces the in-flight outcome, as in Python
            if s.finalbody:
                self.exec_block(s.finalbody, env, glob)

    def handler_matches(self, h, exc, env, glob):
        if h.type is None:
            return True
        t = self.eval(h.type, env, glob)
        classes = []
        if isinstance(t, STuple):
            for x in t.items:
                if not (isinstance(x, SConst) and isinstance(x.v, type)):
                    raise NotEncodable("except clause")
                classes.append(x.v)
        elif isinstance(t, SConst) and isinstance(t.v, type):
            classes.append(t.v)
        elif isinstance(t, SConst) and isinstance(t.v, tuple):
            classes.extend(t.v)
        else:
            raise NotEncodable("except clause")
        return issubclass(exc.cls, tuple(classes))

    # -- expressions
    def lookup(self, name, env, glob):
        if name in env:
            return env[name]
        if name in glob:
            return self.lift_global(glob[name])
        import builtins
        if hasattr(builtins, name):
            return SConst(getattr(builtins, name))
        raise PyRaise(SExc(NameError))

    def lift_global(self, v):
        if isinstance(v, (bool, int)) or v is None:
            return self.lift(v)
        return SConst(v)

    def eval(self, e, env, glob):
        if isinstance(e, ast.Constant):
            if isinstance(e.value, (str, float)):
                return SConst(e.value)
            return self.lift(e.value)
        if isinstance(e, ast.Name):
            return self.lookup(e.id, env, glob)
        if isinstance(e, ast.JoinedStr):
            return SConst("<fstring>")
        if isinstance(e, ast.Tuple):
            return STuple([self.eval(x, env, glob) for x in e.elts])
        if isinstance(e, ast.Attribute):
            o = self.eval(e.value, env, glob)
            if isinstance(o, SockModel):
                return SBound(o, e.attr)
            if isinstance(o, SConst):
                try:
                    return self.lift_global(getattr(o.v, e.attr))
                except AttributeError:
                    raise PyRaise(SExc(AttributeError))
            raise NotEncodable("attribute of %s" % type(o).__name__)
        if isinstance(e, ast.Subscript):
            o = self.eval(e.value, env, glob)
            if isinstance(e.slice, ast.Constant) and isinstance(e.slice.value, int) and isinstance(o, STuple):
                try:
                    return o.items[e.slice.value]
                except IndexError:
                    raise PyRaise(SExc(IndexError))
            raise NotEncodable("subscript")
        if isinstance(e, ast.BinOp):
            return self.binop(e.op, self.eval(e.left, env, glob), self.eval(e.right, env, glob))
        if isinstance(e, ast.UnaryOp):
            v = self.eval(e.operand, env, glob)
            if isinstance(e.op, ast.Not):
                return SBool(not self.truth(v))
            if isinstance(e.op, ast.USub) and isinstance(v, SInt):
                return SInt(-v.e)
            raise NotEncodable("unary op")
        if isinstance(e, ast.BoolOp):
            last = None
            for x in e.values:
                last = self.eval(x, env, glob)
                t = self.truth(last)
                if isinstance(e.op, ast.And) and not t:
                    return last
                if isinstance(e.op, ast.Or) and t:
                    return last
            return last
        if isinstance(e, ast.Compare):
            left = self.eval(e.left, env, glob)
            res = None
            for op, r in zip(e.ops, e.comparators):
                right = self.eval(r, env, glob)
                c = self.compare(op, left, right)
                if not self.truth(c):
                    return SBool(False)
                res = c
                left = right
            return SBool(True)
        if isinstance(e, ast.Call):
            f = self.eval(e.func, env, glob)
            args = []
            for a in e.args:
                if isinstance(a, ast.Starred):
                    raise NotEncodable("star args")
                args.append(self.eval(a, env, glob))
            kwargs = {}
            for k in e.keywords:
                if k.arg is None:
                    raise NotEncodable("** args")
                kwargs[k.arg] = self.eval(k.value, env, glob)
            return self.call(f, args, kwargs)
        if isinstance(e, ast.IfExp):
            return self.eval(e.body if self.truth(self.eval(e.test, env, glob)) else e.orelse, env, glob)
        raise NotEncodable("expression %s" % type(e).__name__)

    def binop(self, op, a, b):
        if isinstance(a, SInt) and isinstance(b, SInt):
            if isinstance(op, ast.Add):
                return SInt(z3.simplify(a.e + b.e))
            if isinstance(op, ast.Sub):
                return SInt(z3.simplify(a.e - b.e))
            if isinstance(op, ast.Mult):
                return SInt(z3.simplify(a.e * b.e))
            raise NotEncodable("int operator")
        if isinstance(a, SBytes) and isinstance(b, SBytes) and isinstance(op, ast.Add):
            l1, l2 = z3.simplify(a.length), z3.simplify(b.length)
            if z3.is_int_value(l2) and l2.as_long() == 0:
                return a
            if z3.is_int_value(l1) and l1.as_long() == 0:
                return b
            # adjacency obligation: joining two non-empty slices that are not consecutive in the stream
            if self.check(l1 > 0, l2 > 0, b.start != a.start + a.length) != z3.unsat:
                raise NonAdjacent()
            return SBytes(z3.simplify(z3.If(l1 == 0, b.start, a.start)), z3.simplify(l1 + l2))
        raise NotEncodable("binary operator on %s, %s" % (type(a).__name__, type(b).__name__))

    def compare(self, op, a, b):
        if isinstance(op, (ast.Is, ast.IsNot)):
            same = (isinstance(a, SNone) and isinstance(b, SNone)) or (isinstance(a, SConst) and isinstance(b, SConst) and a.v is b.v)
            return SBool(same if isinstance(op, ast.Is) else not same)
        if isinstance(a, SInt) and isinstance(b, SInt):
            m = {ast.Lt: a.e < b.e, ast.LtE: a.e <= b.e, ast.Gt: a.e > b.e, ast.GtE: a.e >= b.e, ast.Eq: a.e == b.e, ast.NotEq: a.e != b.e}
            for k, v in m.items():
                if isinstance(op, k):
                    return SBool(v)
        if isinstance(a, SBytes) and isinstance(b, SBytes) and isinstance(op, (ast.Eq, ast.NotEq)):
            # only comparison with the empty bytes object is meaningful for opaque slices
            lb = z3.simplify(b.length)
            la = z3.simplify(a.length)
            if z3.is_int_value(lb) and lb.as_long() == 0:
                c = a.length == 0
            elif z3.is_int_value(la) and la.as_long() == 0:
                c = b.length == 0
            else:
                raise NotEncodable("bytes comparison")
            return SBool(c if isinstance(op, ast.Eq) else z3.Not(c))
        if isinstance(a, SNone) or isinstance(b, SNone):
            if isinstance(op, ast.Eq):
                return SBool(isinstance(a, SNone) and isinstance(b, SNone))
            if isinstance(op, ast.NotEq):
                return SBool(not (isinstance(a, SNone) and isinstance(b, SNone)))
        raise NotEncodable("comparison")

    def call(self, f, args, kwargs):
        if isinstance(f, SBound):
            if isinstance(f.obj, SockModel) and f.name == "recv":
                return f.obj.recv(*args[:1])
            raise NotEncodable("socket method %s" % f.name)
        if isinstance(f, SFunc):
            return self.call_node(f.node, f.env, f.glob, args, kwargs)
        if not isinstance(f, SConst):
            raise NotEncodable("call of %s" % type(f).__name__)
        v = f.v
        import pyworkers.remote_pickle as rp
        import pyworkers.utils as utils
        if v is len:
            (x,) = args
            if isinstance(x, SBytes):
                return SInt(x.length)
            if isinstance(x, STuple):
                return SInt(len(x.items))
            raise NotEncodable("len")
        if v is bytes or v is bytearray:
            if not args:
                return SBytes(0, 0)
            if isinstance(args[0], SBytes):
                return args[0]
            raise NotEncodable("bytes()")
        if v is struct.unpack:
            fmt, b = args
            if not (isinstance(fmt, SConst) and fmt.v in ("!I", ">I")) or not isinstance(b, SBytes):
                raise NotEncodable("struct.unpack format")
            if self.branch(b.length == 4):
                h = HDR(b.start)
                self.assume(z3.And(h >= 0, h < 2 ** 32))
                return STuple([SInt(h)])
            raise PyRaise(SExc(struct.error))
        if v in (rp.loads, rp.remote_loads):
            if not isinstance(args[0], SBytes):
                raise NotEncodable("loads argument")
            return SMsg(args[0])
        if v is min or v is max:
            if len(args) == 2 and all(isinstance(x, SInt) for x in args):
                a, b = args
                if v is min:
                    return SInt(z3.If(a.e <= b.e, a.e, b.e))
                return SInt(z3.If(a.e >= b.e, a.e, b.e))
            raise NotEncodable("min/max")
        if v is int or v is bool:
            if len(args) == 1 and isinstance(args[0], SInt) and v is int:
                return args[0]
            if len(args) == 1 and v is bool:
                return SBool(self.truth(args[0]))
            raise NotEncodable("int()/bool()")
        if isinstance(v, type) and issubclass(v, BaseException):
            return SExc(v)
        if inspect.ismethod(v) and isinstance(v.__self__, utils.BraceStyleAdapter):
            return SNone()           # logging: empty body
        if inspect.isfunction(v) and getattr(v, "__module__", "").startswith("pyworkers"):
            return self.call_function(v, args, kwargs)
        raise NotEncodable("call of %r" % (v,))


class NonAdjacent(Exception):
    pass


# ---- C10 driver -------------------------------------------------------------------------------
def explore_recv(M, K, budget_s=600, script=None, concrete=None, lmin=1, record_unsat=False):
    """Explores every path of M consecutive recv_msg calls on one symbolic stream.

    Returns dict(status=..., paths=..., violations=[...], queries=..., solver_s=...).
    """
    import pyworkers.remote as remote
    t0 = time.time()
    I = Interp(K)
    I.record_unsat = record_unsat
    L = [z3.Int("L%d" % j) for j in range(M)]
    E = z3.Int("E")
    rst = z3.Bool("rst")
    off = [z3.IntVal(0)]
    for j in range(M):
        off.append(z3.simplify(off[-1] + 4 + L[j]))
    for j in range(M):
        I.base.append(z3.And(L[j] >= lmin, L[j] < 2 ** 32))
        I.base.append(HDR(off[j]) == L[j])
    I.base.append(z3.And(E >= 0, E <= off[M]))
    if concrete is not None:
        for j in range(M):
            I.base.append(L[j] == concrete["L"][j])
        I.base.append(E == concrete["E"])
        I.base.append(rst == bool(concrete["rst"]))
    violations = []
    leaves = []
    outside = 0
    paths = 0
    I.pending = [[]]
    while I.pending:
        if time.time() - t0 > budget_s:
            return {"status": "unknown", "why": "budget exhausted after %d paths" % paths, "paths": paths, "queries": I.queries,
                    "solver_s": I.solver_s, "violations": violations}
        prefix = I.pending.pop()
        I.start_path(prefix)
        sock = SockModel(I, E, rst, script=(list(script) if script is not None else None))
        I.sock = sock
        paths += 1
        leaf = None
        try:
            for j in range(M):
                complete = I.branch(E >= off[j + 1])
                try:
                    r = I.call_function(remote.recv_msg, [sock])
                except PyRaise as pr:
                    if issubclass(pr.exc.cls, remote.ConnectionClosedError):
                        leaf = ("closed-error-on-complete-message", j) if complete else ("ok-closed", j)
                    else:
                        leaf = ("%s-%s" % (pr.exc.cls.__name__, "on-complete-message" if complete else "instead-of-ConnectionClosedError"), j)
                    break
                except Livelock:
                    leaf = ("no-progress-on-%s-stream" % ("complete" if complete else "truncated"), j)
                    break
                except NonAdjacent:
                    leaf = ("wrong-message", j)
                    break
                if not complete:
                    leaf = ("returned-message-from-truncated-stream", j)
                    break
                if not isinstance(r, SMsg):
                    leaf = ("wrong-message", j)
                    break
                bad = z3.Or(r.data.start != off[j] + 4, r.data.length != L[j], sock.pos != off[j + 1])
                if I.check(bad) != z3.unsat:
                    I.assume(bad)
                    leaf = ("wrong-message", j)
                    break
            if leaf is None:
                leaf = ("ok-all", M)
        except UnwindExceeded:
            outside += 1
            leaf = ("outside-unwinding-bound", -1)
        except PathInfeasible:
            continue
        leaves.append(leaf[0])
        if not leaf[0].startswith("ok") and leaf[0] != "outside-unwinding-bound":
            # ask for a small replayable witness first
            small = [z3.And(L[j] >= 16, L[j] <= 200) for j in range(M)]
            w = None
            for extra in (small, []):
                if I.check(*extra) == z3.sat:
                    I.solver.push()
                    for x in extra:
                        I.solver.add(x)
                    I.solver.check()
                    m = I.solver.model()
                    w = {"L": [m.eval(L[j], model_completion=True).as_long() for j in range(M)],
                         "E": m.eval(E, model_completion=True).as_long(),
                         "rst": bool(z3.is_true(m.eval(rst, model_completion=True))),
                         "ks": [m.eval(k, model_completion=True).as_long() for k in sock.ks],
                         "kind": leaf[0], "msg": leaf[1]}
                    I.solver.pop()
                    break
            violations.append(w or {"kind": leaf[0], "msg": leaf[1], "L": None})
    return {"status": "done", "paths": paths, "leaves": leaves, "outside": outside, "queries": I.queries,
            "solver_s": round(I.solver_s, 3), "unknown_queries": I.unknowns, "violations": violations,
            "unsat_smt2": I.smt2_queries}


def coarse(kind):
    """Outcome classes used when the encoding is compared with the real function: unpickling is opaque in the
    encoding, so 'a message was returned from a truncated stream' and 'some exception other than ConnectionClosedError
    was raised on a truncated stream' are the same class (truncation not reported)."""
    if kind is None:
        return None
    if kind.startswith("ok"):
        return kind
    if kind == "returned-message-from-truncated-stream" or kind.endswith("-instead-of-ConnectionClosedError"):
        return "truncation-not-reported"
    if kind.endswith("-on-complete-message") and kind != "closed-error-on-complete-message":
        return "exception-on-complete-message"
    return kind


# ---- replay of a witness against the real function ------------------------------------------------
class ScriptSock:
    """recv() returns exactly the scripted segment sizes (then as much as asked), FIN/RST at the end."""

    def __init__(self, data, ks, rst):
        self.data, self.ks, self.rst = data, list(ks), rst
        self.pos = 0
        self.empty = 0

    def recv(self, n, *a):
        avail = len(self.data) - self.pos
        if n <= 0:
            return b""
        if avail <= 0:
            if self.rst:
                raise ConnectionResetError(104, "reset")
            self.empty += 1
            if self.empty >= 50:
                raise _Spin()
            return b""
        self.empty = 0
        k = self.ks.pop(0) if self.ks else n
        k = max(1, min(k, n, avail))
        c = self.data[self.pos:self.pos + k]
        self.pos += k
        return c


class _Spin(BaseException):
    pass


def _message_of_len(n):
    import pyworkers.remote_pickle as rp
    for pad in range(0, n + 1):
        m = b"x" * pad
        d = rp.dumps(m)
        if len(d) == n:
            return m, d
    return None, None


def real_outcome(Ls, E, rst, ks):
    """Runs the real recv_msg over a stream of len(Ls) messages with bodies of exactly Ls bytes."""
    import pyworkers.remote as remote
    msgs, stream = [], b""
    for n in Ls:
        m, d = _message_of_len(n)
        if m is None:
            return None
        msgs.append(m)
        stream += struct.pack("!I", n) + d
    sock = ScriptSock(stream[:E], ks, rst)
    pos_bounds = [0]
    for n in Ls:
        pos_bounds.append(pos_bounds[-1] + 4 + n)
    for j, m in enumerate(msgs):
        complete = E >= pos_bounds[j + 1]
        try:
            got = remote.recv_msg(sock)
        except remote.ConnectionClosedError:
            return ("closed-error-on-complete-message", j) if complete else ("ok-closed", j)
        except _Spin:
            return ("no-progress-on-%s-stream" % ("complete" if complete else "truncated"), j)
        except Exception as e:  # noqa
            return ("%s-%s" % (type(e).__name__, "on-complete-message" if complete else "instead-of-ConnectionClosedError"), j)
        if not complete:
            return ("returned-message-from-truncated-stream", j)
        if got != m or sock.pos != pos_bounds[j + 1]:
            return ("wrong-message", j)
    return ("ok-all", len(msgs))


def replay(body):
    """custom replay entry for bin/check --replay"""
    w = body["witness"]
    out = real_outcome(w["L"], w["E"], w["rst"], w["ks"])
    text = "witness L=%s E=%s rst=%s segments=%s -> real recv_msg: %s (encoding said %s)" % (w["L"], w["E"], w["rst"], w["ks"], out, w["kind"])
    if out is not None and coarse(out[0]) == coarse(w["kind"]):
        return False, {"signature": "c10.smt." + coarse(w["kind"]), "detail": text}, text
    return True, None, text


# ---- translator validation ----------------------------------------------------------------------
def validate(n_scripts=40, seed=0):
    """Pushes concrete scripts through both the encoding and the real function; returns mismatches."""
    import random
    rnd = random.Random(seed)
    mism = []
    done = 0
    for i in range(n_scripts):
        M = rnd.choice([1, 1, 2])
        Ls = [rnd.choice([16, 17, 20, 40, 120]) for _ in range(M)]
        total = sum(4 + n for n in Ls)
        E = rnd.choice([total, total, rnd.randint(0, total), rnd.randint(0, min(total, 8))])
        rst = rnd.choice([False, True])
        script = [rnd.choice([0, 0, 1, 2, 3, 7]) for _ in range(12)]
        r = explore_recv(M, 64, script=list(script), concrete={"L": Ls, "E": E, "rst": rst})
        enc = r.get("leaves", ["?"])
        # real: same cut rule
        ks = []
        sock_script = list(script)

        class S(ScriptSock):
            def recv(self2, n, *a):
                avail = len(self2.data) - self2.pos
                if n > 0 and avail > 0:
                    m = min(n, avail)
                    c = sock_script.pop(0) if sock_script else 0
                    self2.ks = [m if (c == 0 or c >= m) else c]
                return ScriptSock.recv(self2, n)
        import pyworkers.remote as remote
        real = _real_with(S, Ls, E, rst)
        done += 1
        if len(enc) != 1 or real is None or coarse(enc[0]) != coarse(real[0]):
            mism.append({"L": Ls, "E": E, "rst": rst, "script": script, "encoding": enc, "real": real})
    return done, mism


def _real_with(cls, Ls, E, rst):
    import pyworkers.remote as remote
    msgs, stream = [], b""
    for n in Ls:
        m, d = _message_of_len(n)
        if m is None:
            return None
        msgs.append(m)
        stream += struct.pack("!I", n) + d
    sock = cls(stream[:E], [], rst)
    b = [0]
    for n in Ls:
        b.append(b[-1] + 4 + n)
    for j, m in enumerate(msgs):
        complete = E >= b[j + 1]
        try:
            got = remote.recv_msg(sock)
        except remote.ConnectionClosedError:
            return ("closed-error-on-complete-message", j) if complete else ("ok-closed", j)
        except _Spin:
            return ("no-progress-on-%s-stream" % ("complete" if complete else "truncated"), j)
        except Exception as e:  # noqa
            return ("%s-%s" % (type(e).__name__, "on-complete-message" if complete else "instead-of-ConnectionClosedError"), j)
        if not complete:
            return ("returned-message-from-truncated-stream", j)
        if got != m or sock.pos != b[j + 1]:
            return ("wrong-message", j)
    return ("ok-all", len(msgs))


# ---- obligations for the driver -----------------------------------------------------------------
def c10_obligations(tier):
    cfgs = [(1, 8), (2, 4)] if tier == "quick" else [(1, 16), (2, 6), (3, 4)]
    obs = [{"kind": "custom", "fn": "vf.ast2smt:solve_c10", "harness": "smt", "fixed": {"M": M, "K": K}, "free": {}, "mode": "prop",
            "timeout": 300 if tier == "quick" else 1500} for (M, K) in cfgs]
    obs.append({"kind": "custom", "fn": "vf.ast2smt:solve_validate", "harness": "smt-validate", "fixed": {"scripts": 40 if tier == "quick" else 150},
                "free": {}, "mode": "prop", "timeout": 300})
    return obs


def solve_c10(ob):
    M, K = ob["fixed"]["M"], ob["fixed"]["K"]
    try:
        r = explore_recv(M, K, budget_s=ob["timeout"], record_unsat=True)
    except NotEncodable as e:
        return {"status": "unknown", "why": "recv_msg not encodable for the current source: %s" % e, "paths": 0}
    out = {"paths": r["paths"], "queries": r.get("queries"), "solver_s": r.get("solver_s"),
           "distinct_extra": len(set(r.get("leaves", []))),
           "sample": {"engine": "ast2smt", "M": M, "K": K, "leaf_kinds": sorted(set(r.get("leaves", []))), "paths": r["paths"],
                      "z3_queries": r.get("queries"), "z3_s": r.get("solver_s"), "outside_bound_paths": r.get("outside")}}
    if r["status"] != "done":
        out.update(status="unknown", why=r.get("why"))
        return out
    if r.get("unknown_queries"):
        out.update(status="unknown", why="%d solver queries returned unknown" % r["unknown_queries"])
        return out
    if not r["violations"]:
        out["status"] = "confirmed"
        xc = cross_check(r.get("unsat_smt2", []))
        out["sample"]["cvc5"] = xc
        if xc.get("disagree"):
            out.update(status="unknown", why="z3 and cvc5 disagree: %s" % xc)
        return out
    # replay the first violation of each kind against the real function
    seen = set()
    for w in r["violations"]:
        if w.get("L") is None or w["kind"] in seen:
            continue
        seen.add(w["kind"])
        real = real_outcome(w["L"], w["E"], w["rst"], w["ks"])
        if real is not None and coarse(real[0]) == coarse(w["kind"]):
            out.update(status="refuted", replayed=True, failure={"signature": "c10.smt." + coarse(w["kind"]), "detail": str(w)},
                       args=w, replay_body={"property": "C10", "harness": "smt", "custom_replay": "vf.ast2smt:replay", "witness": w,
                                            "args": w, "fn": "vf.ast2smt:replay"})
            return out
    out.update(status="refuted", replayed=False, why="encoding reports %s but the real function does not reproduce it" % sorted(seen),
               failure={"signature": "c10.smt.unreplayed"})
    return out


def solve_validate(ob):
    try:
        done, mism = validate(ob["fixed"]["scripts"])
    except NotEncodable as e:
        return {"status": "unknown", "why": "not encodable: %s" % e, "paths": 0}
    if mism:
        # the encoding does not describe the current source faithfully: tier B is inconclusive (tier A still decides)
        return {"status": "unknown", "why": "translator validation mismatch (encoding vs real function): %s" % mism[:2], "paths": done}
    return {"status": "confirmed", "paths": done, "distinct_extra": 1,
            "sample": {"engine": "ast2smt-validation", "scripts_compared_with_real_function": done, "mismatches": 0}}


def cvc5_check(txt, tlimit_ms=10000):
    import cvc5
    tm = cvc5.TermManager()
    slv = cvc5.Solver(tm)
    slv.setOption("tlimit-per", str(tlimit_ms))
    slv.setLogic("QF_UFLIA")
    p = cvc5.InputParser(slv)
    p.setStringInput(cvc5.InputLanguage.SMT_LIB_2_6, txt, "q")
    sm = p.getSymbolManager()
    res = None
    while True:
        cmd = p.nextCommand()
        if cmd.isNull():
            break
        out = cmd.invoke(slv, sm)
        if "(error" in out:
            return "error"
        if out.strip() in ("sat", "unsat", "unknown"):
            res = out.strip()
    return res


def cross_check(queries):
    """Every query z3 answered 'unsat' (pruned branch directions and the final 'wrong message'
    obligations; first 400 per exploration) is re-decided by cvc5."""
    t0 = time.time()
    agree = disagree = other = 0
    for q in queries:
        try:
            r = cvc5_check(q)
        except Exception:  # noqa
            r = "error"
        if r == "unsat":
            agree += 1
        elif r == "sat":
            disagree += 1
        else:
            other += 1
    return {"queries": len(queries), "cvc5_unsat": agree, "disagree": disagree, "cvc5_unknown_or_error": other, "cvc5_s": round(time.time() - t0, 2)}
