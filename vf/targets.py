"""Picklable module-level targets and value menus used by the simulation harnesses.

Module globals (MARKS, STATE_LOG) are shared by all simulated "processes" (they are threads of
one interpreter), which is what lets the harness see what happened inside a child.
"""
from . import sim as simmod

MARKS = []


def reset():
    del MARKS[:]


def _pt(label):
    s = simmod.CUR[0]
    if s is not None:
        s.point("target:" + label)


def add(a, b):
    return a + b


class Boom(Exception):
    pass


def boom(x):
    raise Boom("boom", x)


class Obj:
    def __init__(self, v):
        self.v = v

    def __eq__(self, other):
        return type(other) is Obj and other.v == self.v

    def __hash__(self):
        return hash(self.v)

    def __repr__(self):
        return "Obj(%r)" % (self.v,)


class NeedsArgsError(Exception):
    """An exception class whose constructor requires arguments that Exception.__reduce__ does not keep:
    it pickles fine in the child and cannot be rebuilt in the parent."""

    def __init__(self, a, b):
        super().__init__("needs-args")
        self.a, self.b = a, b


def _unloadable():
    raise AttributeError("Can't get attribute 'Local' on <module '__main__'> (class defined in the main script)")


class Unloadable:
    """Stands for a value whose class cannot be imported on the parent side."""

    def __reduce__(self):
        return (_unloadable, ())

    def __eq__(self, other):
        return type(other) is Unloadable


class UnloadableError(Exception):
    def __reduce__(self):
        return (_unloadable, ())


VALUES = [
    ("none", lambda: None),
    ("zero", lambda: 0),
    ("empty-list", lambda: []),
    ("nested", lambda: {"a": [1, (2, 3)], "b": None}),
    ("object", lambda: Obj(3)),
    ("exception-as-value", lambda: ValueError("x", 1)),
    ("unloadable-value", lambda: Unloadable()),
]

EXCS = [
    ("ValueError", lambda: ValueError("bad", 3)),
    ("Boom", lambda: Boom("boom")),
    ("needs-args", lambda: NeedsArgsError(1, 2)),
    ("unloadable-exc", lambda: UnloadableError("u")),
]

TRANSFERABLE_VALUES = {"none", "zero", "empty-list", "nested", "object", "exception-as-value"}
TRANSFERABLE_EXCS = {"ValueError", "Boom"}


def work(ending, idx):
    """ending: 0 return VALUES[idx] / 1 raise EXCS[idx] / 2 raise KeyboardInterrupt / 3 raise SystemExit"""
    MARKS.append("enter")
    try:
        _pt("loop-1")
        _pt("loop-2")
        try:
            _pt("in-try")
        finally:
            MARKS.append("finally")
        _pt("after-try")
        if ending == 0:
            v = VALUES[idx][1]()
            MARKS.append("return")
            return v
        if ending == 1:
            MARKS.append("raise")
            raise EXCS[idx][1]()
        if ending == 2:
            MARKS.append("raise")
            raise KeyboardInterrupt()
        MARKS.append("raise")
        raise SystemExit(3)
    finally:
        MARKS.append("exit")


def swallow(n):
    """Uncooperative target: swallows every Exception and keeps going for n model seconds."""
    import pyworkers.utils as utils
    t = 0
    while t < n:
        try:
            _pt("swallow")
            utils.time.sleep(1)
        except Exception:  # noqa
            MARKS.append("swallowed")
        t += 1
    return "survived"


def sleeper(n):
    """Blocked in one long system call (no bytecode runs until it returns)."""
    import pyworkers.utils as utils
    utils.time.sleep(n)
    return "slept"


def ident(*a, **k):
    return (a, tuple(sorted(k.items())))


# ---------------------------------------------------------------------------------------------
# stateful workers (C16): run() assigns user_state m times, then behaves like work()
STATE_LOG = []


def _stateful_run(self, ending, idx, m):
    STATE_LOG.append(("initial", self.user_state))
    for i in range(m):
        self.user_state = ("s", i)
        STATE_LOG.append(("assigned", ("s", i)))
        _pt("state-%d" % i)
    return work(ending, idx)


def _mk_stateful():
    from pyworkers.thread import ThreadWorker
    from pyworkers.process import ProcessWorker
    from pyworkers.remote import RemoteWorker
    from pyworkers.persistent_thread import PersistentThreadWorker
    from pyworkers.persistent_process import PersistentProcessWorker
    from pyworkers.persistent_remote import PersistentRemoteWorker
    out = []
    for base in (ThreadWorker, ProcessWorker, RemoteWorker, PersistentThreadWorker, PersistentProcessWorker, PersistentRemoteWorker):
        name = "Stateful" + base.__name__
        cls = type(base)(name, (base,), {"run": _stateful_run, "__module__": __name__, "__qualname__": name})
        globals()[name] = cls
        out.append(cls)
    return out


STATEFUL = _mk_stateful()


def make_stateful(world, kind, ending, idx, m, init_state):
    from . import wsim
    del STATE_LOG[:]
    kw = {}
    if wsim.is_remote_kind(kind):
        kw["host"] = wsim.SERVER_ADDR
    return STATEFUL[kind](None, args=[ending, idx, m], run=True, init_state=init_state, **kw)


# ---------------------------------------------------------------------------------------------
# C05 / C06: a target that reports exactly what it was called with, then damages its arguments
def record(*args, **kwargs):
    seen = ("seen", tuple(_freeze(a) for a in args), tuple(sorted((k, _freeze(v)) for k, v in kwargs.items())))
    _pt("record")
    for a in args:
        if isinstance(a, list):
            a.append("damaged")
    for k in list(kwargs):
        if isinstance(kwargs[k], list):
            kwargs[k].append("damaged")
        kwargs[k] = "overwritten"
    return seen


def _freeze(v):
    if isinstance(v, list):
        return ("list",) + tuple(_freeze(x) for x in v)
    if isinstance(v, tuple):
        return ("tuple",) + tuple(_freeze(x) for x in v)
    return v


def spec_call(defaults, dkw, extra, ekw):
    """Reference merge semantics, written from the statement (pristine defaults every time)."""
    import copy
    a = list(copy.deepcopy(defaults)) if defaults else []
    a[0:len(extra)] = list(extra)
    k = dict(copy.deepcopy(dkw) if dkw else {})
    k.update(ekw)
    return ("seen", tuple(_freeze(x) for x in a), tuple(sorted((kk, _freeze(v)) for kk, v in k.items())))


def item(i, poison=-1):
    """C06 target: value identifies the input; raises on the poison input."""
    _pt("item-a")
    if i == poison:
        raise Boom("poison", i)
    _pt("item-b")
    return ("item", i)


def gil_sleeper(n):
    """A C call that keeps the interpreter lock for n model seconds: no other thread of this process
    (in particular the control thread) gets to run until it returns."""
    import pyworkers.utils as utils
    s = simmod.cur()
    me = s.me()
    others = [a for a in s.actors_of(me.pid) if a is not me]
    for a in others:
        a.frozen = True
    try:
        utils.time.sleep(n)
    finally:
        for a in others:
            a.frozen = False
    return "gil-released"


# ---------------------------------------------------------------------------------------------
# C02: one target whose behaviour is selected by its first argument
BIG_SIZES = [0, 100, 70 * 1024, 300 * 1024, 2 * 1024 * 1024]
C02_VALUES = [None, 0, False, "", [], {"a": [1, (2, 3)], "b": None}, Obj(3), (1, "x")]
C02_EXCS = [lambda: ValueError("bad", 3), lambda: KeyError("k"), lambda: Boom("boom", [1, 2]), lambda: ZeroDivisionError()]


def flex(mode, idx, *args, **kwargs):
    if mode == 0:
        return C02_VALUES[idx]
    if mode == 1:
        raise C02_EXCS[idx]()
    if mode == 2:
        return b"x" * BIG_SIZES[idx]
    return ("called-with", args, tuple(sorted(kwargs.items())))


def ctx_target(tag, x=0):
    _pt("ctx-target")
    return ("ctx", tag, x)


def loop(n):
    """Cooperative long-running target: lets exceptions propagate."""
    import pyworkers.utils as utils
    for i in range(n):
        _pt("loop")
        utils.time.sleep(1)
    return "loop-done"


def poolfn(run_tag, x):
    if x == "stuck":
        return swallow(300)
    _pt("poolfn")
    return ("p", run_tag, x)


def linger(n):
    """Returns its result at once, but leaves a non-daemon thread behind: the process stays around for n model seconds."""
    import pyworkers.utils as utils

    def hang_around():
        utils.time.sleep(n)
    utils.threading.Thread(target=hang_around, name="lingering").start()
    return "done"


# ---------------------------------------------------------------------------------------------
# a value whose class is "defined in the main script": it can only be unpickled in a process that has that script as main
def _load_mainbox(v):
    from . import simos
    if not simos.main_script_loaded():
        raise AttributeError("Can't get attribute 'MainBox' on <module '__main__' (built-in)>")
    return MainBox(v)


class MainBox:
    def __init__(self, v):
        self.v = v

    def __reduce__(self):
        return (_load_mainbox, (self.v,))

    def __eq__(self, other):
        return type(other) is MainBox and other.v == self.v

    def __hash__(self):
        return hash(("MainBox", self.v))

    def __repr__(self):
        return "MainBox(%r)" % (self.v,)


def gil_then_swallow(hold, n):
    """Keeps the interpreter lock for ``hold`` model seconds, then swallows every Exception for n seconds."""
    gil_sleeper(hold)
    return swallow(n)


def slow_cleanup(loops, steps):
    """Cooperative target whose clean-up takes a while but is interruptible Python code: a finally block of ``steps`` model seconds."""
    import pyworkers.utils as utils
    MARKS.append("enter")
    try:
        for i in range(loops):
            _pt("loop")
            utils.time.sleep(1)
        MARKS.append("return")
        return "loop-done"
    finally:
        MARKS.append("cleanup-begin")
        for i in range(steps):
            _pt("cleanup")
            utils.time.sleep(1)
        MARKS.append("cleanup-done")
        MARKS.append("exit")
