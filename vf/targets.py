"""Picklable module-level targets and value menus used by the simulation harnesses.

Module globals (MARKS, STATE_LOG) are shared by all simulated "processes" (they are threads of
one interpreter), which is what lets the harness see what happened inside a child.
"""
from . import sim as simmod

MARKS = []


def reset():
    del MARKS[:]


def _pt(label):
    s = simmod.CUR[0]
    if s is not None:
        s.point("target:" + label)


def add(a, b):
    return a + b


class Boom(Exception):
    pass


def boom(x):
    raise Boom("boom", x)


class Obj:
    def __init__(self, v):
        self.v = v

    def __eq__(self, other):
        return type(other) is Obj and other.v == self.v

    def __hash__(self):
        return hash(self.v)

    def __repr__(self):
        return "Obj(%r)" % (self.v,)


class NeedsArgsError(Exception):
    """An exception class whose constructor requires arguments that Exception.__reduce__ does not keep:
    it pickles fine in the child and cannot be rebuilt in the parent."""

    def __init__(self, a, b):
        super().__init__("needs-args")
        self.a, self.b = a, b


def _unloadable():
    raise AttributeError("Can't get attribute 'Local' on <module '__main__'> (class defined in the main script)")


class Unloadable:
    """Stands for a value whose class cannot be imported on the parent side."""

    def __reduce__(self):
        return (_unloadable, ())

    def __eq__(self, other):
        return type(other) is Unloadable


class UnloadableError(Exception):
    def __reduce__(self):
        return (_unloadable, ())


VALUES = [
    ("none", lambda: None),
    ("zero", lambda: 0),
    ("empty-list", lambda: []),
    ("nested", lambda: {"a": [1, (2, 3)], "b": None}),
    ("object", lambda: Obj(3)),
    ("exception-as-value", lambda: ValueError("x", 1)),
    ("unloadable-value", lambda: Unloadable()),
]

EXCS = [
    ("ValueError", lambda: ValueError("bad", 3)),
    ("Boom", lambda: Boom("boom")),
    ("needs-args", lambda: NeedsArgsError(1, 2)),
    ("unloadable-exc", lambda: UnloadableError("u")),
]

TRANSFERABLE_VALUES = {"none", "zero", "empty-list", "nested", "object", "exception-as-value"}
TRANSFERABLE_EXCS = {"ValueError", "Boom"}


def work(ending, idx):
    """ending: 0 return VALUES[idx] / 1 raise EXCS[idx] / 2 raise KeyboardInterrupt / 3 raise SystemExit"""
    MARKS.append("enter")
    try:
        _pt("loop-1")
        _pt("loop-2")
        try:
            _pt("in-try")
        finally:
            MARKS.append("finally")
        _pt("after-try")
        if ending == 0:
            v = VALUES[idx][1]()
            MARKS.append("return")
            return v
        if ending == 1:
            MARKS.append("raise")
            raise EXCS[idx][1]()
        if ending == 2:
            MARKS.append("raise")
            raise KeyboardInterrupt()
        MARKS.append("raise")
        raise SystemExit(3)
    finally:
        MARKS.append("exit")


def swallow(n):
    """Uncooperative target: swallows every Exception and keeps going for n model seconds."""
    import pyworkers.utils as utils
    t = 0
    while t < n:
        try:
            _pt("swallow")
            utils.time.sleep(1)
        except Exception:  # noqa
            MARKS.append("swallowed")
        t += 1
    return "survived"


def sleeper(n):
    """Blocked in one long system call (no bytecode runs until it returns)."""
    import pyworkers.utils as utils
    utils.time.sleep(n)
    return "slept"


def ident(*a, **k):
    return (a, tuple(sorted(k.items())))
