"""Picklable module-level targets used by the simulation harnesses."""
from . import sim as simmod


def _pt(label):
    s = simmod.CUR[0]
    if s is not None:
        s.point("target:" + label)


def add(a, b):
    return a + b


class Boom(Exception):
    pass


def boom(x):
    raise Boom("boom", x)
