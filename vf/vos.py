"""The virtual OS: stubs for the primitives pyworkers touches (sockets, pipes, processes, threads,
clock), whose nondeterminism is decided by the harness' symbolic schedule.

Contract notes are on each stub.  Blocking calls that nothing can ever release record a *sticky*
hang (``hang_record()``) and raise ``Hang`` (a BaseException, so that it passes ``except Exception``
handlers of the code under analysis); once the record is set every later stub call raises again,
so a bare ``except:`` that swallows it only delays the unwinding.  Oracles read the record.
"""
import pickle


class Hang(BaseException):
    pass


class Killed(BaseException):
    """The current actor was killed (SIGKILL/SIGTERM default action) at an injection point."""


class _State:
    def __init__(self):
        self.reset()

    def reset(self):
        self.hang = None
        self.log = []


STATE = _State()


def reset():
    STATE.reset()


def hang(call, reason):
    if STATE.hang is None:
        STATE.hang = (call, reason)
    raise Hang("%s: %s" % STATE.hang)


def check_sticky():
    if STATE.hang is not None:
        raise Hang("%s: %s" % STATE.hang)


def hang_record():
    return STATE.hang


# ---------------------------------------------------------------------------------------------
# sockets
# ---------------------------------------------------------------------------------------------
class FakeSock:
    """A connected stream socket: scripted inbound byte stream, captured outbound bytes.

    recv(n) returns between 1 and n of the bytes still in flight; how many is decided by ``cuts``
    (an rt.Sched: option 0 = as much as asked/available, option i = i bytes).  When the inbound
    script is exhausted: end='fin' -> b'' (orderly shutdown; three consecutive b'' with no other
    socket call in between are recorded as a spin = no progress), end='rst' -> ConnectionResetError,
    end='silent' -> the peer stays connected and silent: recv blocks forever = Hang.
    sendall after the peer is gone (``peer_gone``) raises BrokenPipeError.
    """

    MAXCUT = 3

    def __init__(self, data=b"", end="fin", cuts=None, name="sock", peer_gone=False, addr=("127.0.0.1", 60006),
                 peer=("127.0.0.1", 40000)):
        self.data = data
        self.pos = 0
        self.end = end
        self.cuts = cuts
        self.name = name
        self.out = bytearray()
        self.closed = False
        self.peer_gone = peer_gone
        self.eof_reads = 0
        self.recv_calls = 0
        self.addr = addr
        self.peer = peer
        self.shut_rd = False
        self.shut_wr = False
        self.on_send = None

    # -- inbound
    def recv(self, n, *flags):
        check_sticky()
        self.recv_calls += 1
        if self.closed:
            raise OSError(9, "Bad file descriptor")
        if n <= 0:
            return b""
        if self.shut_rd:
            return b""
        avail = len(self.data) - self.pos
        if avail <= 0:
            if self.end == "rst":
                raise ConnectionResetError(104, "Connection reset by peer")
            if self.end == "fin":
                self.eof_reads += 1
                if self.eof_reads >= 3:
                    hang("%s.recv" % self.name, "no progress: recv() returned b'' three times in a row")
                return b""
            hang("%s.recv" % self.name, "peer connected but silent forever")
        self.eof_reads = 0
        m = min(n, avail)
        k = 0
        if self.cuts is not None:
            k = self.cuts.pick(min(m - 1, self.MAXCUT) + 1)
        take = m if k == 0 else k
        chunk = self.data[self.pos:self.pos + take]
        self.pos += take
        return chunk

    def feed(self, more):
        self.data = self.data + more

    # -- outbound
    def sendall(self, b, *flags):
        check_sticky()
        if self.closed:
            raise OSError(9, "Bad file descriptor")
        if self.peer_gone or self.shut_wr:
            raise BrokenPipeError(32, "Broken pipe")
        self.out += b
        if self.on_send is not None:
            self.on_send(self, bytes(b))

    send = sendall

    # -- misc
    def close(self):
        self.closed = True

    def shutdown(self, how):
        if self.closed:
            raise OSError(9, "Bad file descriptor")
        if how in (0, 2):
            self.shut_rd = True
        if how in (1, 2):
            self.shut_wr = True

    def setsockopt(self, *a):
        pass

    def getsockname(self):
        return self.addr

    def getpeername(self):
        return self.peer

    def fileno(self):
        return 1000

    def __enter__(self):
        return self

    def __exit__(self, *a):
        self.close()


def frames(stream):
    """Split a captured outbound stream into (header, body) frames (4-byte big-endian length prefix)."""
    out = []
    pos = 0
    import struct
    while pos + 4 <= len(stream):
        (n,) = struct.unpack("!I", stream[pos:pos + 4])
        out.append(bytes(stream[pos + 4:pos + 4 + n]))
        pos += 4 + n
    return out
