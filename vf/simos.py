"""Virtual-OS stubs on top of the simulation kernel (vf/sim.py): threading, multiprocessing,
sockets, os, signal, time, queue — with the contracts of the real primitives that pyworkers relies on.

``install()`` rebinds the module globals through which pyworkers reaches these primitives
(pyworkers.process.mp, pyworkers.thread.threading, ...); no pyworkers source is changed.
"""
import os as _os
import pickle
import queue as _queue
import signal as _signal
import socket as _socket
import struct
import threading as _threading
import time as _time
import types

from . import sim as simmod
from . import vos
from .vos import Hang, Killed


def S():
    return simmod.cur()


# =============================================================================================
# threading
# =============================================================================================
class FakeEvent:
    def __init__(self):
        self._flag = False

    def set(self):
        S().check_alive()
        self._flag = True

    def clear(self):
        self._flag = False

    def is_set(self):
        return self._flag

    def wait(self, timeout=None):
        S().block(lambda: self._flag, timeout, what="Event.wait")
        return self._flag


class FakeThread:
    def __init__(self, group=None, target=None, name=None, args=(), kwargs=None, *, daemon=None):
        self._target = target
        self._args = args
        self._kwargs = kwargs or {}
        self.name = name or "Thread"
        self.daemon = bool(daemon)
        self._actor = None

    def start(self):
        s = S()
        s.check_alive()
        if self._actor is not None:
            raise RuntimeError("threads can only be started once")

        def run():
            self._target(*self._args, **self._kwargs)
        self._actor = s.spawn(run, self.name)
        self._actor.daemon = self.daemon
        proc = s.procs.get(self._actor.pid)
        if proc is not None:
            proc._register_thread(self._actor)

    def is_alive(self):
        S().check_alive()
        return self._actor is not None and self._actor.state not in ("done", "zombie")

    def join(self, timeout=None):
        s = S()
        if self._actor is None:
            raise RuntimeError("cannot join thread before it is started")
        if self._actor is s.me():
            raise RuntimeError("cannot join current thread")
        a = self._actor
        s.block(lambda: a.state in ("done", "zombie"), timeout, what="Thread.join(%s)" % self.name)

    @property
    def ident(self):
        return None if self._actor is None else self._actor.ident

    @property
    def native_id(self):
        return None if self._actor is None else self._actor.tid

    def __reduce__(self):
        # a Thread object cannot cross a process boundary
        raise TypeError("cannot pickle '_thread.lock' object")


class _MainThreadView:
    def __init__(self, actor):
        self.ident = actor.ident
        self.native_id = actor.tid
        self.name = actor.name


def _make_threading():
    ns = types.SimpleNamespace()
    ns.Thread = FakeThread
    ns.Event = FakeEvent
    ns.Lock = _threading.Lock
    ns.RLock = _threading.RLock
    ns.local = _threading.local
    ns.get_ident = lambda: S().me().ident
    ns.get_native_id = lambda: S().me().tid
    ns.current_thread = lambda: _MainThreadView(S().me())
    ns.enumerate = lambda: []
    return ns


# =============================================================================================
# pipes (multiprocessing.Pipe duplex=True: an AF_UNIX socketpair)
# =============================================================================================
class Channel:
    """One duplex pipe: two ends (0, 1); q[i] = frames readable at end i."""

    CAPACITY = 200 * 1024

    def __init__(self, cid):
        self.cid = cid
        self.q = [[], []]
        self.handles = [[], []]
        self.reset = [False, False]       # end i: the other end was closed while data sent by i was still unread (ECONNRESET)
        self.partial = [False, False]     # a frame towards end i was cut by the writer's death
        self.inflight = [None, None]      # oversized frame towards end i waiting for a reader
        self.reader_waiting = [False, False]

    def open_handles(self, side):
        return [h for h in self.handles[side] if not h.closed]

    def buffered(self, side):
        return sum(len(f) for f in self.q[side])


class FakeConn:
    """multiprocessing.connection.Connection over a Channel.

    recv(): next frame (unpickled with the real pickle); EOFError when the buffer is empty and no
    handle of the other end is open any more; OSError('got end of file during message') when the
    writer died part-way through a frame.  send(): BrokenPipeError when no handle of the other end
    is open; a frame larger than the free buffer capacity blocks until a reader is draining.
    """

    def __init__(self, chan, side, pid):
        self.chan = chan
        self.side = side
        self.pid = pid
        self.closed = False
        chan.handles[side].append(self)
        S().registry.setdefault(pid, []).append(self)

    # -- helpers
    def _peer_open(self):
        return bool(self.chan.open_handles(1 - self.side))

    def _readable(self):
        c, i = self.chan, self.side
        return bool(c.q[i]) or c.inflight[i] is not None or c.partial[i] or c.reset[i] or not self._peer_open()

    def _note_close(self):
        """AF_UNIX stream sockets: if the last handle of this end goes away while data sent by the peer is still
        unread, the peer's next read fails with ECONNRESET instead of seeing a clean EOF."""
        c, i = self.chan, self.side
        if not c.open_handles(i) and (c.q[i] or c.inflight[i] is not None):
            c.reset[1 - i] = True

    def _check(self):
        S().check_alive()
        if self.closed:
            raise OSError("handle is closed")

    # -- API
    def send(self, obj):
        s = S()
        self._check()
        frame = pickle.dumps(obj, protocol=pickle.HIGHEST_PROTOCOL)
        c, to = self.chan, 1 - self.side
        if not self._peer_open():
            raise BrokenPipeError(32, "Broken pipe")
        # a kill may land while the frame is half written
        c.partial[to] = True
        try:
            s.point("conn.send:mid", async_ok=False)
        except Killed:
            raise
        except BaseException:
            c.partial[to] = False
            raise
        c.partial[to] = False
        if len(frame) + c.buffered(to) > c.CAPACITY:
            c.inflight[to] = frame
            ok = s.block(lambda: c.inflight[to] is None or not self._peer_open(), None, what="Connection.send (pipe full)")
            if c.inflight[to] is not None:
                c.inflight[to] = None
                raise BrokenPipeError(32, "Broken pipe")
            return
        c.q[to].append(frame)

    def recv(self):
        s = S()
        self._check()
        c, i = self.chan, self.side
        c.reader_waiting[i] = True
        try:
            s.block(self._readable, None, what="Connection.recv")
        finally:
            c.reader_waiting[i] = False
        if self.closed:
            raise OSError("handle is closed")
        if c.q[i]:
            frame = c.q[i].pop(0)
            return pickle.loads(frame)
        if c.inflight[i] is not None:
            frame = c.inflight[i]
            c.inflight[i] = None
            return pickle.loads(frame)
        if c.partial[i]:
            c.partial[i] = False
            raise OSError("got end of file during message")
        if c.reset[i]:
            c.reset[i] = False
            raise ConnectionResetError(104, "Connection reset by peer")
        raise EOFError()

    def poll(self, timeout=0.0):
        s = S()
        self._check()
        s.block(self._readable, 0 if timeout is None and False else timeout, what="Connection.poll")
        return self._readable()

    def close(self):
        S().check_alive()
        self.closed = True
        self._note_close()

    def fileno(self):
        if self.closed:
            raise OSError("handle is closed")
        return 500 + self.chan.cid * 2 + self.side

    def __reduce__(self):
        # what multiprocessing's reduction does: the descriptor is duplicated into the receiving process
        return (_rebuild_conn, (self.chan.cid, self.side))


def _rebuild_conn(cid, side):
    s = S()
    return FakeConn(s.channels[cid], side, s.me().pid)


def _Pipe(duplex=True):
    s = S()
    cid = len(s.channels)
    ch = Channel(cid)
    s.channels[cid] = ch
    pid = s.me().pid
    return FakeConn(ch, 0, pid), FakeConn(ch, 1, pid)


# =============================================================================================
# processes
# =============================================================================================
class Sentinel:
    def __init__(self, proc):
        self.proc = proc

    def __reduce__(self):
        return (int, (0,))


class FakeProcess:
    """multiprocessing (spawn) Process: the process object (target bound method and everything it
    references) is pickled in the parent and unpickled in the child, as spawn does."""

    def __init__(self, group=None, target=None, name=None, args=(), kwargs=None, *, daemon=None):
        self._target = target
        self._args = tuple(args)
        self._kwargs = dict(kwargs or {})
        self.name = name or "Process"
        self.daemon = daemon
        self.pid = None
        self.exitcode = None
        self._started = False
        self.exited = False
        self._threads = []
        self._main = None
        self.sentinel = Sentinel(self)
        self.blocks_sigterm = False
        self._is_child_copy = False

    def __getstate__(self):
        return {"_target": self._target, "_args": self._args, "_kwargs": self._kwargs, "name": self.name, "daemon": self.daemon,
                "_is_child_copy": True, "pid": None, "exitcode": None, "_started": True, "exited": False}

    def __setstate__(self, st):
        self.__dict__.update(st)
        self._threads = []
        self._main = None
        self.sentinel = None
        self.blocks_sigterm = False

    def __bool__(self):
        return True

    def start(self):
        s = S()
        s.check_alive()
        if self._started:
            raise AssertionError("cannot start a process twice")
        blob = pickle.dumps(self)              # raises here (in the parent) for unpicklable targets, like spawn
        self._started = True
        self.pid = s.new_pid()
        s.procs[self.pid] = self
        s.main_loaded[self.pid] = set(s.main_loaded.get(s.me().pid, ()))
        cfg = s.proc_config(self)
        self.blocks_sigterm = cfg.get("blocks_sigterm", False)

        def child_main():
            try:
                copy = pickle.loads(blob)
                copy.pid = self.pid
                copy._target(*copy._args, **copy._kwargs)
                self.exitcode = 0
            except (Killed, Hang):
                raise
            except SystemExit as e:
                self.exitcode = e.code if isinstance(e.code, int) else 1
            except BaseException:  # noqa
                self.exitcode = 1
        a = s.spawn(child_main, self.name, pid=self.pid, kind="process-main")
        self._main = a
        self._threads.append(a)
        a.on_exit.append(lambda _a: self._maybe_exit())
        if cfg.get("never_scheduled"):
            a.frozen = True

    def _register_thread(self, actor):
        self._threads.append(actor)
        actor.on_exit.append(lambda _a: self._maybe_exit())

    def _maybe_exit(self):
        """Interpreter exit: after the main thread ends, Python joins the non-daemon threads."""
        if self.exited:
            return
        if self._main.state != "done":
            return
        for a in self._threads:
            if a is not self._main and not a.daemon and a.state not in ("done", "zombie"):
                return
        self._die(self.exitcode if self.exitcode is not None else 0)

    def _die(self, code):
        s = S()
        if self.exited:
            return
        self.exited = True
        self.exitcode = code
        s.kill_pid(self.pid)
        for h in s.registry.get(self.pid, []):
            h._owner_died()

    def is_alive(self):
        S().check_alive()
        return self._started and not self.exited

    def join(self, timeout=None):
        s = S()
        s.check_alive()
        assert self._started, "can only join a started process"
        s.block(lambda: self.exited, timeout, what="Process.join(%s)" % self.name)

    def terminate(self):
        S().check_alive()
        _deliver_signal(self.pid, _signal.SIGTERM)

    def kill(self):
        S().check_alive()
        self._sigkill()

    def _sigkill(self):
        if self._started and not self.exited:
            self._die(-9)


def kill_plain_pid(s, pid):
    """SIGKILL for an actor group that was not started through FakeProcess (the in-simulation server)."""
    s.kill_pid(pid)
    for h in s.registry.get(pid, []):
        h._owner_died()


def _owner_died_conn(self):
    self.closed = True
    self._note_close()


FakeConn._owner_died = _owner_died_conn


def _deliver_signal(pid, signum):
    s = S()
    if pid == s.main.pid:
        # the harness process signalling itself (ThreadWorker/RemoteWorker force path)
        s.self_sigterm = True
        raise Killed()
    proc = s.procs.get(pid)
    if proc is None or proc.exited or not proc._started:
        raise ProcessLookupError(3, "No such process")
    if signum == _signal.SIGKILL:
        proc._sigkill()
        return
    h = s.signal_handlers.get((pid, signum))
    if h is not None and h not in (_signal.SIG_DFL, _signal.SIG_IGN):
        # Python-level handler: runs in that process' main thread at its next bytecode boundary
        proc._main.pending_signal = (signum, h)
        proc._main.hold = False
        return
    if h == _signal.SIG_IGN or proc.blocks_sigterm:
        return
    proc._die(-signum)
    if s.me().pid == pid:
        raise Killed()


class _Context:
    Process = FakeProcess

    def Pipe(self, duplex=True):
        return _Pipe(duplex)


def _conn_wait(object_list, timeout=None):
    s = S()
    s.check_alive()
    objs = list(object_list)

    def ready_list():
        out = []
        for o in objs:
            if _is_ready(o):
                out.append(o)
        return out
    s.block(lambda: bool(ready_list()), timeout, what="connection.wait")
    return ready_list()


def _is_ready(o):
    if isinstance(o, Sentinel):
        return o.proc.exited
    if isinstance(o, FakeConn):
        return (not o.closed) and o._readable()
    if isinstance(o, FakeSocket):
        return o._readable()
    inner = getattr(o, "_pipe", None)
    if inner is not None:
        return _is_ready(inner)
    raise simmod.SimError("connection.wait on unsupported object %r" % (o,))


def _make_mp():
    ns = types.SimpleNamespace()
    ns.Pipe = _Pipe
    ns.get_context = lambda method=None: _Context()
    ns.Process = FakeProcess
    ns.connection = types.SimpleNamespace(wait=_conn_wait)
    return ns


# =============================================================================================
# sockets
# =============================================================================================
class Endpoint:
    """One side of a TCP connection (shared by all handles/descriptors that refer to it)."""

    def __init__(self, addr):
        self.addr = addr
        self.peer = None
        self.buf = bytearray()
        self.handles = []
        self.shut_rd = False
        self.shut_wr = False        # we sent FIN
        self.closed = False         # all handles closed
        self.reset = False          # peer reset the connection
        self.linger0 = False
        self.eof_reads = 0

    def open_handles(self):
        return [h for h in self.handles if not h.closed]


class Listener:
    def __init__(self, addr):
        self.addr = addr
        self.backlog = []
        self.closed = False
        self.handles = []


class FakeSocket:
    """socket.socket(AF_INET, SOCK_STREAM) over the simulated network."""

    def __init__(self, family=_socket.AF_INET, type=_socket.SOCK_STREAM, proto=0, fileno=None, _ep=None, _listener=None):
        s = S()
        self.pid = s.me().pid
        self.closed = False
        self.ep = _ep
        self.listener = _listener
        self.bound = None
        self.linger0 = False
        if _ep is not None:
            _ep.handles.append(self)
        if _listener is not None:
            _listener.handles.append(self)
        s.registry.setdefault(self.pid, []).append(self)

    # -- helpers
    def _alive(self):
        S().check_alive()
        if self.closed:
            raise OSError(9, "Bad file descriptor")

    def _readable(self):
        if self.closed:
            return True
        if self.listener is not None:
            return bool(self.listener.backlog) or self.listener.closed
        ep = self.ep
        if ep is None:
            return True
        p = ep.peer
        return bool(ep.buf) or ep.shut_rd or ep.reset or p.closed or p.shut_wr

    # -- connection set-up
    def bind(self, addr):
        self._alive()
        s = S()
        host, port = addr
        if port == 0:
            port = s.next_port
            s.next_port += 1
        if (host, port) in s.listeners and not s.listeners[(host, port)].closed:
            raise OSError(98, "Address already in use")
        self.bound = (host, port)

    def listen(self, backlog=0):
        self._alive()
        s = S()
        if self.bound is None:
            self.bound = ("0.0.0.0", s.next_port)
            s.next_port += 1
        self.listener = Listener(self.bound)
        self.listener.handles.append(self)
        s.listeners[self.bound] = self.listener

    def accept(self):
        self._alive()
        s = S()
        lst = self.listener
        if lst is None:
            raise OSError(22, "Invalid argument")
        s.block(lambda: bool(lst.backlog) or lst.closed or self.closed, None, what="socket.accept")
        if self.closed or lst.closed:
            raise OSError(9, "Bad file descriptor")
        ep = lst.backlog.pop(0)
        conn = FakeSocket(_ep=ep)
        return conn, ep.peer.addr

    def connect(self, addr):
        self._alive()
        s = S()
        host, port = addr
        s.connects += 1
        if s.connects in s.refuse_connects:
            raise ConnectionRefusedError(111, "Connection refused")
        lst = s.listeners.get((host, port)) or s.listeners.get(("0.0.0.0", port))
        if lst is None or lst.closed:
            raise ConnectionRefusedError(111, "Connection refused")
        if self.bound is None:
            self.bound = ("127.0.0.1", s.next_port)
            s.next_port += 1
        mine = Endpoint(self.bound)
        theirs = Endpoint((host if host != "0.0.0.0" else "127.0.0.1", port))
        mine.peer, theirs.peer = theirs, mine
        mine.linger0 = self.linger0
        self.ep = mine
        mine.handles.append(self)
        lst.backlog.append(theirs)

    # -- data
    def recv(self, n, *flags):
        self._alive()
        s = S()
        ep = self.ep
        if ep is None:
            raise OSError(107, "Transport endpoint is not connected")
        s.block(self._readable, None, what="socket.recv")
        if self.closed:
            raise OSError(9, "Bad file descriptor")
        if n <= 0:
            return b""
        if ep.buf and not ep.shut_rd:
            ep.eof_reads = 0
            take = min(n, len(ep.buf))
            cut = s.recv_cut(self, take)
            take = max(1, min(take, cut)) if cut else take
            out = bytes(ep.buf[:take])
            del ep.buf[:take]
            return out
        if ep.reset:
            raise ConnectionResetError(104, "Connection reset by peer")
        ep.eof_reads += 1
        if ep.eof_reads >= 50:
            vos.hang("socket.recv", "no progress: recv() keeps returning b'' (busy loop on a closed connection)")
        return b""

    def sendall(self, data, *flags):
        self._alive()
        ep = self.ep
        if ep is None:
            raise OSError(32, "Broken pipe")
        p = ep.peer
        if ep.shut_wr:
            raise BrokenPipeError(32, "Broken pipe")
        if ep.reset:
            raise BrokenPipeError(32, "Broken pipe")
        if p.closed:
            # TCP: the first write after the peer closed is accepted by the local kernel; the peer answers
            # with RST, which fails every later operation
            ep.reset = True
            return
        if not p.shut_rd:
            data = bytes(data)
            if len(data) >= 8:
                # a process can be killed when only part of the bytes have left (kill-only point: no Python code runs here)
                half = len(data) // 2
                p.buf += data[:half]
                S().point("sock.send:mid", async_ok=False)
                p.buf += data[half:]
            else:
                p.buf += data

    send = sendall

    def shutdown(self, how):
        self._alive()
        ep = self.ep
        if ep is None:
            raise OSError(107, "Transport endpoint is not connected")
        if how in (_socket.SHUT_RD, _socket.SHUT_RDWR):
            ep.shut_rd = True
        if how in (_socket.SHUT_WR, _socket.SHUT_RDWR):
            ep.shut_wr = True

    def close(self):
        S().check_alive()
        if self.closed:
            return
        self.closed = True
        self._released()

    def _released(self):
        if self.listener is not None and not [h for h in self.listener.handles if not h.closed]:
            self.listener.closed = True
            # connections that were completed by the kernel but never accepted are reset when the listening socket goes away
            for pend in self.listener.backlog:
                pend.closed = True
                if pend.peer is not None:
                    pend.peer.reset = True
            del self.listener.backlog[:]
        ep = self.ep
        if ep is not None and not ep.open_handles():
            ep.closed = True
            if (self.linger0 or ep.linger0) and ep.peer is not None and not ep.peer.closed:
                ep.peer.reset = True

    def _owner_died(self):
        if not self.closed:
            self.closed = True
            lin = self.linger0
            self.linger0 = False
            if self.ep is not None:
                self.ep.linger0 = False
            self._released()

    def detach(self):
        return self.fileno()

    # -- misc
    def setsockopt(self, level, opt, value):
        self._alive()
        if level == _socket.SOL_SOCKET and opt == _socket.SO_LINGER and isinstance(value, bytes) and len(value) == 8:
            on, t = struct.unpack("ii", value)
            self.linger0 = bool(on) and t == 0
            if self.ep is not None:
                self.ep.linger0 = self.linger0

    def getsockname(self):
        self._alive()
        if self.ep is not None:
            return self.ep.addr
        return self.bound or ("0.0.0.0", 0)

    def getpeername(self):
        self._alive()
        if self.ep is None:
            raise OSError(107, "Transport endpoint is not connected")
        return self.ep.peer.addr

    def fileno(self):
        return 900

    def settimeout(self, t):
        pass

    def __enter__(self):
        return self

    def __exit__(self, *a):
        self.close()

    def __reduce__(self):
        s = S()
        key = len(s.sock_transfers)
        s.sock_transfers.append((self.ep, self.listener, self.linger0))
        return (_rebuild_sock, (key,))


def _rebuild_sock(key):
    ep, lst, linger0 = S().sock_transfers[key]
    so = FakeSocket(_ep=ep, _listener=lst)
    so.linger0 = linger0
    return so


class _SocketModule:
    socket = FakeSocket

    def __getattr__(self, name):
        return getattr(_socket, name)

    @staticmethod
    def gethostbyname(h):
        if h in ("localhost", "127.0.0.1", "0.0.0.0") or h.replace(".", "").isdigit():
            return "127.0.0.1" if h == "localhost" else h
        return _socket.gethostbyname(h)

    @staticmethod
    def socketpair():
        raise simmod.SimError("socketpair not modelled (windows-only path)")


# =============================================================================================
# os / signal / time / queue
# =============================================================================================
class _OSModule:
    def __getattr__(self, name):
        return getattr(_os, name)

    @staticmethod
    def getpid():
        return S().me().pid

    @staticmethod
    def kill(pid, sig):
        S().check_alive()
        _deliver_signal(pid, sig)


class _SignalModule:
    def __getattr__(self, name):
        return getattr(_signal, name)

    @staticmethod
    def signal(signum, handler):
        s = S()
        a = s.check_alive()
        old = s.signal_handlers.get((a.pid, signum), _signal.SIG_DFL)
        s.signal_handlers[(a.pid, signum)] = handler
        return old


class _TimeModule:
    def __getattr__(self, name):
        return getattr(_time, name)

    @staticmethod
    def sleep(t):
        S().sleep(t)

    @staticmethod
    def time():
        return 1000.0 + S().clock

    @staticmethod
    def monotonic():
        return S().clock


class FakeQueue:
    """queue.Queue for the thread-worker LocalPipe (pyworkers.utils.Queue adds close())."""

    def __init__(self, maxsize=0):
        self.items = []

    def put(self, item, block=True, timeout=None):
        S().check_alive()
        self.items.append(item)

    def get(self, block=True, timeout=None):
        s = S()
        s.check_alive()
        if not block:
            if not self.items:
                raise _queue.Empty
            return self.items.pop(0)
        ok = s.block(lambda: bool(self.items), timeout, what="Queue.get")
        if not self.items:
            raise _queue.Empty
        return self.items.pop(0)

    def get_nowait(self):
        return self.get(block=False)

    def put_nowait(self, item):
        return self.put(item)

    def empty(self):
        return not self.items

    def qsize(self):
        return len(self.items)

    def close(self):
        pass


class _FakeModules(dict):
    """sys.modules as seen by remote.py: reads fall through to the real table, writes stay private
    (_run_backend replaces sys.modules['__main__'] in what it believes is a fresh child process)."""

    def __missing__(self, key):
        import sys
        return sys.modules[key]


class _SysModule:
    def __init__(self):
        self.modules = _FakeModules()

    def __getattr__(self, name):
        import sys
        return getattr(sys, name)


USER_MAIN = "/virtual/user_main_script.py"


def _run_path(path, run_name=None, **kw):
    """runpy.run_path as _run_backend uses it: records that this process has executed that script as its main module."""
    s = S()
    s.main_loaded.setdefault(s.me().pid, set()).add(path)
    return {}


def main_script_loaded():
    """Has the current process got the user's main script as (new) main module?  The parent has by definition; a process
    spawned through multiprocessing inherits it (spawn re-imports the parent's main module); a remote backend only if
    _run_backend ran the script (main_path)."""
    s = S()
    return USER_MAIN in s.main_loaded.get(s.me().pid, ())


def sim_foreign_raise(tid, exception):
    s = S()
    n = s.set_async_exc(tid, exception)
    if n == 0:
        raise ValueError("Invalid Thread ID")


# =============================================================================================
# installation
# =============================================================================================
_ORIG = {}


def install(s):
    """Attach the per-simulation state and rebind pyworkers' module globals to the stubs."""
    import pyworkers.utils as utils
    import pyworkers.worker as worker
    import pyworkers.thread as thread
    import pyworkers.process as process
    import pyworkers.remote as remote
    import pyworkers.persistent_thread as pthread
    import pyworkers.persistent_process as pprocess
    import pyworkers.persistent_remote as premote
    import pyworkers.pool as pool
    import pyworkers.remote_server as rserver
    import pyworkers.remote_context as rcontext

    s.channels = {}
    s.registry = {}
    s.listeners = {}
    s.next_port = 50000
    s.connects = 0
    s.refuse_connects = set()
    s.sock_transfers = []
    s.proc_config = lambda proc: {}
    s.main_loaded = {s.main.pid: {USER_MAIN}}
    s.recv_cut = lambda sock, avail: 0

    th, mpx, so, osx, sg, tm = _make_threading(), _make_mp(), _SocketModule(), _OSModule(), _SignalModule(), _TimeModule()
    binds = [
        (utils, "threading", th), (utils, "mp", mpx), (utils, "time", tm), (utils, "Queue", FakeQueue), (utils, "foreign_raise", sim_foreign_raise),
        (worker, "threading", th), (worker, "os", osx),
        (thread, "threading", th), (thread, "os", osx), (thread, "signal", sg), (thread, "foreign_raise", sim_foreign_raise),
        (process, "threading", th), (process, "mp", mpx), (process, "os", osx), (process, "foreign_raise", sim_foreign_raise),
        (remote, "threading", th), (remote, "mp", mpx), (remote, "os", osx), (remote, "socket", so), (remote, "signal", sg),
        (remote, "foreign_raise", sim_foreign_raise),
        (remote, "runpy", types.SimpleNamespace(run_path=_run_path)), (remote, "sys", _SysModule()),
        (pprocess, "mp", mpx), (premote, "mp", mpx), (premote, "socket", so),
        (pool, "threading", th), (pool, "mp", mpx), (pool, "time", tm), (pool, "foreign_raise", sim_foreign_raise),
        (rserver, "threading", th), (rserver, "os", osx), (rserver, "socket", so), (rserver, "signal", sg), (rserver, "foreign_raise", sim_foreign_raise),
        (rcontext, "os", osx), (rcontext, "socket", so), (rcontext, "signal", sg),
    ]
    for mod, name, val in binds:
        key = (mod.__name__, name)
        if key not in _ORIG:
            _ORIG[key] = (mod, name, getattr(mod, name))
        setattr(mod, name, val)
    # the LocalPipe class captured utils.Queue by global lookup at call time, so rebinding is enough


def uninstall():
    for (mod, name, val) in _ORIG.values():
        setattr(mod, name, val)
