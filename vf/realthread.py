"""Real-OS replay of landing-point counterexamples on real threads (thread worker kinds).

A line tracer installed with threading.settrace raises WorkerTerminatedError in the child thread
when the frame of the named pyworkers method reaches the source line of the landing label - the
same place where the simulation delivered the asynchronous exception - on a real ThreadWorker /
PersistentThreadWorker with the real threading module."""
import re
import sys
import threading

from . import inject, simos, sim as simmod


def restore_real_world():
    simos.uninstall()
    for (cls, name), (orig, new) in list(inject._DONE.items()):
        type.__setattr__(cls, name, orig)
    inject._DONE.clear()
    simmod.CUR[0] = None


def run_with_landing(make_worker, label, after=None, timeout=5.0):
    """label: 'Class.method:LINE'.  Returns dict(observed=(alive, has_error, result, error), fired=bool)."""
    from pyworkers.worker import WorkerTerminatedError
    m = re.match(r"^(\w+)\.(\w+):(\d+)$", label or "")
    if not m:
        return None
    cls_name, meth, line = m.group(1), m.group(2), int(m.group(3))
    fired = []

    def local(frame, event, arg):
        if event == "line" and frame.f_lineno == line and not fired:
            fired.append(True)
            raise WorkerTerminatedError()
        return local

    def tracer(frame, event, arg):
        if event == "call" and frame.f_code.co_name == meth and frame.f_code.co_filename.endswith(".py") and "pyworkers" in frame.f_code.co_filename:
            return local
        return tracer

    threading.settrace(tracer)
    try:
        w = make_worker()
    finally:
        threading.settrace(None)
    if after is not None:
        after(w)
    w.wait(timeout)
    if w.is_alive():
        w.terminate(timeout)
    obs = []
    for name in ("is_alive", "has_error", "result", "error"):
        try:
            v = getattr(w, name)
            obs.append(v() if name == "is_alive" else v)
        except Exception as e:  # noqa
            obs.append("raises-%s" % type(e).__name__)
    return {"observed": tuple(obs), "fired": bool(fired)}
