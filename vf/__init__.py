"""Solver-based verification harnesses for SamsungLabs/pyworkers (see /verif/DESIGN.md)."""
import os
import sys

VERIF_ROOT = os.path.dirname(os.path.dirname(os.path.abspath(__file__)))
REPO = os.environ.get("PYWORKERS_REPO", "/repo")

# pyworkers is always imported from the current working tree of /repo.
if REPO not in sys.path:
    sys.path.insert(0, REPO)
