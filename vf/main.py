"""bin/check entry point:  check <ID> [--tier quick|thorough] [--replay FILE]"""
import argparse
import hashlib
import importlib
import inspect
import json
import os
import random
import subprocess
import sys
import time

from . import VERIF_ROOT, REPO, rt, xh

EXIT_OK, EXIT_VIOLATION, EXIT_HARNESS = 0, 1, 3


class PropSpec:
    def __init__(self, pid, harnesses, assumptions=(), outside=(), stubs=(), custom=None,
                 real_replay=None, technique="", bounds=None, pre_run=None):
        self.id = pid
        self.harnesses = list(harnesses)
        self.assumptions = list(assumptions)
        self.outside = list(outside)
        self.stubs = list(stubs)
        self.custom = custom            # callable(tier) -> list of custom obligations
        self.real_replay = real_replay  # callable(harness_name, args, failure) -> (bool|None, text)
        self.technique = technique
        self.bounds = bounds or {}
        self.pre_run = pre_run          # callable(tier) -> list of str problems (harness errors)

    def harness(self, name):
        for h in self.harnesses:
            if h.name == name:
                return h
        raise KeyError(name)


def load_spec(pid):
    mod = importlib.import_module("vf.props.%s" % pid.lower())
    return mod.SPEC


def source_hash(qualname):
    """'pyworkers.worker:Worker.active_children' -> sha1 of its current source."""
    try:
        modname, attr = qualname.split(":")
        obj = importlib.import_module(modname)
        for part in attr.split("."):
            obj = inspect.getattr_static(obj, part) if isinstance(obj, type) else getattr(obj, part)
            if isinstance(obj, (staticmethod, classmethod)):
                obj = obj.__func__
            if isinstance(obj, property):
                obj = obj.fget
                if isinstance(obj, (staticmethod, classmethod)):
                    obj = obj.__func__
        src = inspect.getsource(obj)
        return hashlib.sha1(src.encode()).hexdigest()[:12]
    except Exception as e:  # noqa
        return "unavailable(%s)" % type(e).__name__


def write_replay(pid, harness, fn, args, failure):
    d = os.path.join(VERIF_ROOT, "replays")
    os.makedirs(d, exist_ok=True)
    body = {"property": pid, "harness": harness, "fn": fn, "args": args,
            "expected_signature": (failure or {}).get("signature")}
    h = hashlib.sha1(json.dumps(body, sort_keys=True).encode()).hexdigest()[:10]
    path = os.path.join(d, "%s-%s-%s.json" % (pid, harness, h))
    with open(path, "w") as f:
        json.dump(body, f, indent=1, sort_keys=True)
    return path


def do_replay(path, quiet=False):
    with open(path) as f:
        body = json.load(f)
    pid = body["property"]
    spec = load_spec(pid)
    if body.get("custom_replay"):
        mod, fn = body["custom_replay"].split(":")
        ok, failure, text = getattr(importlib.import_module(mod), fn)(body)
        tr = []
    else:
        ok, failure, tr, _ = xh.concrete_run(pid, body["fn"], body["args"])
        text = ""
    if not quiet:
        print("replay %s harness=%s args=%s" % (pid, body["harness"], json.dumps(body["args"], sort_keys=True)))
        for e in tr:
            print("   ", e)
        if text:
            print(text)
    if ok:
        print("REPLAY-OK: oracle satisfied on concrete execution (no violation reproduced)")
        return EXIT_OK
    print("REPLAY-FAIL: signature=%s" % failure["signature"])
    exp = body.get("expected_signature")
    if exp and exp != failure["signature"]:
        print("REPLAY-MISMATCH: symbolic run reported %s (symbolic-execution artefact or nondeterministic harness)" % exp)
        return EXIT_HARNESS
    if failure.get("detail"):
        print("   detail: %s" % failure["detail"])
    real = None
    if spec.real_replay is not None and not body.get("custom_replay"):
        try:
            from . import vos
            vos.reset()
            real, rtext = spec.real_replay(body["harness"], body["args"], failure)
            if real is False:
                # real threads/processes/sockets: one more attempt before the counterexample is called a model error (a loaded
                # machine can make the forced schedule miss its window)
                vos.reset()
                real, rtext = spec.real_replay(body["harness"], body["args"], failure)
                rtext += " (second attempt)"
        except BaseException as e:  # noqa
            real, rtext = None, "real-OS replay crashed: %r" % (e,)
        print("REAL-OS-REPLAY: %s %s" % ({True: "reproduced", False: "NOT reproduced", None: "not available"}[real], rtext))
        if real is False:
            return EXIT_HARNESS
    print("VIOLATION property=%s replay=%s" % (pid, path))
    return EXIT_VIOLATION


def run_check(pid, tier, jobs=None, only=None, verbose=False):
    t0 = time.time()
    seed = int(os.environ.get("VERIF_SEED", "0") or 0)
    spec = load_spec(pid)
    problems = []
    if spec.pre_run:
        problems.extend(spec.pre_run(tier) or [])
    obligations, twins = [], []
    for h in spec.harnesses:
        if only and h.name not in only:
            continue
        obligations.extend(h.obligations(tier))
        tw = h.twin_obligation(tier)
        if tw:
            twins.append(tw)
    if spec.custom and not only:
        obligations.extend(spec.custom(tier))
    random.Random(seed).shuffle(obligations)
    # longest first is unknown; run twins first (cheap), then obligations
    allobs = twins + obligations

    def progress(i, r):
        if verbose:
            ob = allobs[i]
            print("  [%s] %s %s fixed=%s paths=%s %.1fs %s" % (
                r["status"], ob.get("mode", "custom"), ob.get("harness"), ob.get("fixed"), r.get("paths"),
                r.get("wall_s", 0), (r.get("why") or r.get("error") or "")[:3000]), flush=True)

    # every command ends in bounded time: obligations not decided when the wall budget is used up are reported as inconclusive
    # ("wall budget exhausted"), never as confirmed; the default applies to the thorough tier only
    budget = float(os.environ.get("VERIF_WALL_BUDGET", "0") or 0) or (3300.0 if tier == "thorough" else None)
    results = xh.run_obligations(pid, allobs, jobs=jobs, progress=progress, budget_s=budget)
    twin_res = results[:len(twins)]
    ob_res = results[len(twins):]

    # --- vacuity twins must be refuted
    twins_refuted = 0
    for ob, r in zip(twins, twin_res):
        if r["status"] == "refuted":
            twins_refuted += 1
        else:
            problems.append("vacuity twin of %s not refuted (%s %s)" % (ob["harness"], r["status"],
                                                                       (r.get("why") or r.get("error") or "")[:2000]))

    confirmed = sum(1 for r in ob_res if r["status"] == "confirmed")
    unknown = [r for r in ob_res if r["status"] == "unknown"]
    errors = [r for r in ob_res if r["status"] == "error"]
    refuted = [r for r in ob_res if r["status"] == "refuted"]
    for r in errors:
        problems.append("engine error in %s %s: %s" % (r["ob"].get("harness"), r["ob"].get("fixed"), r.get("error", "")[-1500:]))

    known_hits = {}
    for r in ob_res:
        for s, n in (r.get("known_hits") or {}).items():
            known_hits[s] = known_hits.get(s, 0) + n

    violations = []
    seen_sigs = set()
    for r in refuted:
        ob = r["ob"]
        if ob.get("kind") == "custom":
            # custom engines replay by themselves and hand back a replay body
            body = r.get("replay_body")
            sig = (r.get("failure") or {}).get("signature")
            known = rt.known_findings().get(pid, {})
            if sig in known and not os.environ.get("VERIF_IGNORE_KNOWN"):
                known_hits[sig] = known_hits.get(sig, 0) + 1
                continue
            if not r.get("replayed"):
                problems.append("custom counterexample did not replay: %s" % (r.get("why"),))
                continue
            if sig in seen_sigs:
                continue
            seen_sigs.add(sig)
            d = os.path.join(VERIF_ROOT, "replays")
            os.makedirs(d, exist_ok=True)
            hh = hashlib.sha1(json.dumps(body, sort_keys=True).encode()).hexdigest()[:10]
            path = os.path.join(d, "%s-%s-%s.json" % (pid, ob.get("harness"), hh))
            with open(path, "w") as f:
                json.dump(body, f, indent=1, sort_keys=True)
            violations.append((path, sig, r))
            continue
        h = spec.harness(ob["harness"])
        args = r.get("args")
        if args is None:
            problems.append("counterexample without parsable arguments in %s: %s" % (ob["harness"], r.get("messages")))
            continue
        if r.get("refute_kind") != "POST_FAIL" and not r.get("failure"):
            problems.append("harness raised (%s) in %s args=%s:\n%s" % (r.get("refute_kind"), ob["harness"], args, r.get("refute_tb", "")))
            continue
        path = write_replay(pid, ob["harness"], h.fn, args, r.get("failure"))
        p = subprocess.run([sys.executable, "-m", "vf.main", pid, "--replay", path], cwd=VERIF_ROOT,
                           capture_output=True, text=True, timeout=600)
        if p.returncode == EXIT_VIOLATION:
            sig = (r.get("failure") or {}).get("signature")
            if sig in seen_sigs:
                continue
            seen_sigs.add(sig)
            violations.append((path, sig, r))
            if verbose:
                print(p.stdout)
        else:
            problems.append("counterexample of %s args=%s did not reproduce concretely (exit %d):\n%s\n%s" % (
                ob["harness"], args, p.returncode, p.stdout[-1500:], p.stderr[-1500:]))

    # --- evidence
    paths = sum(int(r.get("paths") or 0) for r in results)
    hashes = set()
    for r in results:
        hashes.update(r.get("trace_hashes") or [])
    samples = []
    for r in ob_res + twin_res:
        for s in (r.get("samples") or []):
            if len(samples) < 6:
                samples.append({"harness": r["ob"].get("harness"), "fixed": r["ob"].get("fixed"), "trace": s})
    for r in ob_res:
        if r["ob"].get("kind") == "custom" and r.get("sample") and len(samples) < 10:
            samples.append(r["sample"])
    if not samples:
        samples.append({"note": "no interesting path recorded"})
    functions = {}
    for h in spec.harnesses:
        for q in h.functions:
            functions[q] = source_hash(q)
    solver_cpu = round(sum(float(r.get("cpu_s") or 0) for r in results), 2)
    known = rt.known_findings().get(pid, {})
    ev = {
        "property_id": pid,
        "tier": tier,
        "seed": seed,
        "level": "model_checking",
        "coverage": {
            "evaluations": paths,
            "distinct_nontrivial": len(hashes) + sum(int(r.get("distinct_extra") or 0) for r in ob_res),
            "rule": "one evaluation = one feasible path through real pyworkers code + stubs found by the solver "
                    "(CrossHair/z3) or one SMT query (custom engines); non-trivial = the harness' event of interest "
                    "(fault fired / death observed / patch applied / ...) happened on the path; distinct = distinct "
                    "coarse event trace (sha1 of the label sequence)",
            "samples": samples,
            "obligations": len(obligations),
            "discharged": confirmed,
            "unknown_obligations": len(unknown),
            "refuted_obligations": len(refuted),
            "refuted_known_signatures": sorted(known_hits),
            "exhaustive": bool(obligations) and confirmed == len(obligations),
            "vacuity_twins": {"run": len(twins), "refuted": twins_refuted},
            "functions_encoded": functions,
            "bounds": {h.name: {"ranges": h.tier(tier)["ranges"], "partition": h.tier(tier)["partition"],
                                "fixed": h.tier(tier)["fixed"], "extra_pre": h.tier(tier).get("extra_pre", []),
                                "cpu_timeout_per_obligation_s": h.tier(tier)["timeout"]}
                       for h in spec.harnesses if h.present(tier)},
            "extra_bounds": spec.bounds.get(tier, spec.bounds.get("all", {})),
            "solver_cpu_s": solver_cpu,
            "unknown_detail": [{"harness": r["ob"].get("harness"), "fixed": r["ob"].get("fixed"), "why": (r.get("why") or "")[:300]} for r in unknown][:20],
            "stubs": spec.stubs,
            "outside_claim": spec.outside,
            "explanation": "bounded symbolic execution of real pyworkers slices; each obligation decided by CrossHair 0.0.110 + z3 "
                           "('Confirmed over all paths' = discharged) or by a direct z3/cvc5 query",
            "checker_cmd": "bin/check %s --tier %s" % (pid, tier),
            "trusted_base": ["CPython 3.12", "CrossHair 0.0.110 path exhaustiveness", "z3 4.x/5.x", "vf/vos.py stub contracts"],
        },
        "assumptions": spec.assumptions,
        "wall_s": round(time.time() - t0, 2),
        "violations": len(violations),
    }
    os.makedirs(os.path.join(VERIF_ROOT, "evidence"), exist_ok=True)
    with open(os.path.join(VERIF_ROOT, "evidence", "%s.json" % pid), "w") as f:
        json.dump(ev, f, indent=1, sort_keys=True)

    # --- report
    print("%s tier=%s obligations=%d confirmed=%d unknown=%d refuted=%d paths=%d distinct_nontrivial=%d wall=%.1fs" % (
        pid, tier, len(obligations), confirmed, len(unknown), len(refuted), paths, ev["coverage"]["distinct_nontrivial"],
        time.time() - t0))
    for r in unknown[:10]:
        print("  INCONCLUSIVE %s %s: %s" % (r["ob"].get("harness"), r["ob"].get("fixed"), (r.get("why") or "")[:200]))
    for s in sorted(known_hits):
        print("KNOWN-FINDING: property=%s %s [signature=%s]" % (pid, known[s].get("what_fails", ""), s))
    if problems:
        for p in problems:
            print("HARNESS-ERROR: %s" % p)
        return EXIT_HARNESS
    if violations:
        for path, sig, r in violations:
            print("  signature=%s args=%s" % (sig, json.dumps(r.get("args"), sort_keys=True)))
            print("VIOLATION property=%s replay=%s" % (pid, path))
        return EXIT_VIOLATION
    return EXIT_OK


def main(argv=None):
    ap = argparse.ArgumentParser(prog="check")
    ap.add_argument("property")
    ap.add_argument("--tier", default=os.environ.get("VERIF_TIER") or "quick", choices=["quick", "thorough"])
    ap.add_argument("--replay")
    ap.add_argument("--jobs", type=int)
    ap.add_argument("--only", action="append")
    ap.add_argument("-v", "--verbose", action="store_true")
    a = ap.parse_args(argv)
    import logging
    logging.disable(logging.CRITICAL)
    if a.replay:
        return do_replay(a.replay)
    return run_check(a.property.upper(), a.tier, jobs=a.jobs, only=a.only, verbose=a.verbose)


if __name__ == "__main__":
    sys.exit(main())
