"""Statement-level injection points, regenerated from /repo's current source on every run.

``instrument(cls, name)`` re-compiles the *current* source of a method with a call
``__vf_point__("Class.method:LINE")`` inserted before every statement of every body / handler /
finally / else block, and installs the result on the class (inside the harness process only).
The hook forwards to the active simulation (asynchronous-exception delivery, landing points).
"""
import ast
import inspect
import textwrap

from . import sim as simmod

_DONE = {}
LABELS = {}


def __vf_point__(label):
    s = simmod.CUR[0]
    if s is not None:
        s.point(label)


class _T(ast.NodeTransformer):
    def __init__(self, prefix, offset):
        self.prefix = prefix
        self.offset = offset
        self.labels = []

    def _wrap(self, stmts):
        out = []
        for st in stmts:
            st = self.visit(st)
            label = "%s:%d" % (self.prefix, st.lineno + self.offset)
            self.labels.append(label)
            call = ast.Expr(ast.Call(ast.Name("__vf_point__", ast.Load()), [ast.Constant(label)], []))
            ast.copy_location(call, st)
            ast.fix_missing_locations(call)
            out.append(call)
            out.append(st)
        return out

    def generic_visit(self, node):
        for field in ("body", "orelse", "finalbody"):
            v = getattr(node, field, None)
            if isinstance(v, list) and v and isinstance(v[0], ast.stmt):
                setattr(node, field, self._wrap(v))
        if isinstance(node, ast.Try):
            for h in node.handlers:
                h.body = self._wrap(h.body)
        return node

    def visit_FunctionDef(self, node):
        return self.generic_visit(node)


def instrument(cls, name):
    key = (cls, name)
    raw = cls.__dict__[name]
    fn = raw
    if key in _DONE and _DONE[key][1] is raw:
        return LABELS[key]
    if key in _DONE:
        fn = _DONE[key][0]        # already instrumented earlier in this process: start from the original
    src = textwrap.dedent(inspect.getsource(fn))
    _, first = inspect.getsourcelines(fn)
    tree = ast.parse(src)
    fdef = tree.body[0]
    t = _T("%s.%s" % (cls.__name__, name), first - 1)
    fdef.decorator_list = []
    t.generic_visit(fdef)
    # keep zero-argument super() working: give the function a __class__ cell
    outer = ast.FunctionDef(name="__vf_outer__", args=ast.arguments(posonlyargs=[], args=[ast.arg("__class__")], kwonlyargs=[], kw_defaults=[], defaults=[]),
                            body=[fdef, ast.Return(ast.Name(fdef.name, ast.Load()))], decorator_list=[], type_params=[])
    mod = ast.Module([outer], [])
    ast.fix_missing_locations(mod)
    ast.increment_lineno(mod, first - 1)
    code = compile(mod, inspect.getsourcefile(fn) or "<vf>", "exec")
    glob = fn.__globals__
    glob["__vf_point__"] = __vf_point__
    ns = {}
    exec(code, glob, ns)
    new = ns["__vf_outer__"](cls)
    new.__qualname__ = fn.__qualname__
    new.__vf_original__ = fn
    type.__setattr__(cls, name, new)
    _DONE[key] = (fn, new)
    LABELS[key] = list(t.labels)
    return LABELS[key]


def instrument_all(spec):
    """spec: list of (cls, [names]); missing names are skipped (source may have been refactored)."""
    out = {}
    for cls, names in spec:
        for n in names:
            if n in cls.__dict__ and inspect.isfunction(cls.__dict__[n]):
                out[(cls.__name__, n)] = instrument(cls, n)
    return out
