"""CrossHair driver: obligations, partitioning, parallel solving, verdict collection.

An *obligation* is one solver-decided query: "for all values of the free (symbolic) parameters
of harness H within their stated ranges, with the partition parameters fixed to these values,
the harness' oracle holds".  CrossHair explores the feasible paths through the real pyworkers
code + stubs with z3 and answers CONFIRMED (all paths exhausted, oracle held), REFUTED (with a
concrete assignment) or UNKNOWN.
"""
import importlib
import importlib.util
import itertools
import json
import multiprocessing as mp
import os
import sys
import time
import traceback

from . import VERIF_ROOT, rt

CACHE = os.path.join(VERIF_ROOT, ".cache")


class Harness:
    def __init__(self, name, fn, params, tiers, functions=(), doc=""):
        """
        fn      : "module:function" of the harness
        params  : ordered dict name -> (lo, hi) inclusive integer range (bools are 0..1)
        tiers   : {'quick': {...}, 'thorough': {...}} each with optional keys
                  ranges (overrides), partition (list of names), timeout (CPU s per obligation),
                  fixed (dict of name->value forced in this tier), twin (bool, default True)
        """
        self.name = name
        self.fn = fn
        self.params = dict(params)
        self.tiers = tiers
        self.functions = list(functions)
        self.doc = doc

    def tier(self, tier):
        cfg = dict(self.tiers.get(tier) or self.tiers.get("all") or self.tiers.get("quick") or {})
        ranges = dict(self.params)
        ranges.update(cfg.get("ranges", {}))
        cfg["ranges"] = ranges
        cfg.setdefault("partition", [])
        cfg.setdefault("timeout", 120)
        cfg.setdefault("fixed", {})
        cfg.setdefault("twin", True)
        return cfg

    def present(self, tier):
        return tier in self.tiers or "all" in self.tiers

    def obligations(self, tier):
        if not self.present(tier):
            return []
        cfg = self.tier(tier)
        ranges = cfg["ranges"]
        fixed0 = dict(cfg["fixed"])
        part = [p for p in cfg["partition"] if p not in fixed0]
        spaces = [range(ranges[p][0], ranges[p][1] + 1) for p in part]
        obs = []
        for combo in itertools.product(*spaces):
            fixed = dict(fixed0)
            fixed.update(dict(zip(part, combo)))
            free = {p: ranges[p] for p in self.params if p not in fixed}
            flt = cfg.get("filter")
            if flt is not None and not flt(fixed):
                continue
            obs.append({"kind": "xh", "harness": self.name, "fn": self.fn, "fixed": fixed,
                        "free": free, "timeout": cfg["timeout"], "mode": "prop",
                        "extra_pre": cfg.get("extra_pre", [])})
        return obs

    def twin_obligation(self, tier):
        if not self.present(tier):
            return None
        cfg = self.tier(tier)
        if not cfg["twin"]:
            return None
        fixed = dict(cfg["fixed"])
        fixed.update(cfg.get("twin_fixed", {}))
        free = {p: cfg["ranges"][p] for p in self.params if p not in fixed}
        return {"kind": "xh", "harness": self.name, "fn": self.fn, "fixed": fixed, "free": free,
                "timeout": cfg.get("twin_timeout", 60), "mode": "twin",
                "extra_pre": cfg.get("extra_pre", [])}


def _wrapper_source(prop, ob):
    mod, fn = ob["fn"].split(":")
    free = ob["free"]
    sig = ", ".join("%s: int" % p for p in free)
    pres = ["    pre: %d <= %s <= %d" % (lo, p, hi) for p, (lo, hi) in free.items()]
    for e in ob.get("extra_pre", []):
        names = set(free) | set(ob["fixed"])
        # extra preconditions may mention fixed names; substitute their values
        expr = e
        for k, v in ob["fixed"].items():
            expr = _subst(expr, k, v)
        pres.append("    pre: " + expr)
    kw = ", ".join(["%s=%r" % (k, v) for k, v in ob["fixed"].items()] + ["%s=%s" % (p, p) for p in free])
    src = [
        "from vf import rt",
        "from %s import %s as _H" % (mod, fn),
        "",
        "def ob(%s) -> bool:" % sig,
        "    '''",
    ] + pres + [
        "    post: _",
        "    '''",
        "    return rt.run(%r, _H, dict(%s), %r)" % (prop, kw, ob["mode"]),
        "",
    ]
    return "\n".join(src)


def _subst(expr, name, value):
    import re
    return re.sub(r"\b%s\b" % re.escape(name), repr(value), expr)


_counter = itertools.count()


def solve(task):
    """Runs in a worker process.  task = (prop, ob).  Returns a result dict."""
    prop, ob = task
    t0 = time.time()
    c0 = time.process_time()
    res = {"ob": {k: ob[k] for k in ("harness", "fixed", "free", "mode", "kind")}, "status": "error"}
    try:
        if ob["kind"] == "custom":
            mod, fn = ob["fn"].split(":")
            res.update(getattr(importlib.import_module(mod), fn)(ob))
        else:
            res.update(_solve_xh(prop, ob))
    except BaseException as e:  # noqa
        res["status"] = "error"
        res["error"] = "".join(traceback.format_exception(type(e), e, e.__traceback__))[-4000:]
    res["wall_s"] = round(time.time() - t0, 3)
    res["cpu_s"] = round(time.process_time() - c0, 3)
    return res


def _solve_xh(prop, ob):
    import collections
    from crosshair.core_and_libs import analyze_function, run_checkables, MessageType
    from crosshair.options import AnalysisOptionSet

    os.makedirs(CACHE, exist_ok=True)
    name = "vfob_%d_%d" % (os.getpid(), next(_counter))
    path = os.path.join(CACHE, name + ".py")
    with open(path, "w") as f:
        f.write(_wrapper_source(prop, ob))
    try:
        spec = importlib.util.spec_from_file_location(name, path)
        mod = importlib.util.module_from_spec(spec)
        sys.modules[name] = mod
        spec.loader.exec_module(mod)
        rt.ACCT.reset()
        stats = collections.Counter()
        opts = AnalysisOptionSet(per_condition_timeout=float(ob["timeout"]), report_all=True,
                                 per_path_timeout=float(ob.get("path_timeout", max(10.0, ob["timeout"] / 4.0))),
                                 stats=stats)
        checkables = analyze_function(mod.ob, opts)
        if len(checkables) != 1:
            return {"status": "error", "error": "expected 1 checkable, got %d" % len(checkables)}
        msgs = run_checkables(checkables)
    finally:
        sys.modules.pop(name, None)
        try:
            os.unlink(path)
        except OSError:
            pass
    acct = rt.ACCT
    out = {"paths": acct.paths, "interesting_paths": acct.interesting_paths,
           "trace_hashes": sorted(acct.trace_hashes), "known_hits": dict(acct.known_hits),
           "samples": acct.sample_traces, "xh_paths": int(stats.get("num_paths", 0)),
           "messages": [(m.state.name, m.message[:500]) for m in msgs]}
    states = [m.state for m in msgs]
    if states == [MessageType.CONFIRMED]:
        out["status"] = "confirmed"
    elif any(s in (MessageType.POST_FAIL, MessageType.POST_ERR, MessageType.EXEC_ERR) for s in states):
        out["status"] = "refuted"
        m = [m for m in msgs if m.state in (MessageType.POST_FAIL, MessageType.POST_ERR, MessageType.EXEC_ERR)][0]
        out["refute_kind"] = m.state.name
        out["refute_tb"] = (m.traceback or "")[-3000:]
        args = None
        if acct.failure and acct.failure.get("args") is not None:
            args = acct.failure["args"]
        else:
            args = _parse_args(m.message, ob)
        out["args"] = args
        out["failure"] = acct.failure
    elif any(s == MessageType.PRE_UNSAT for s in states):
        out["status"] = "unknown"
        out["why"] = "precondition unsatisfiable or every path aborted"
    else:
        out["status"] = "unknown"
        out["why"] = "; ".join("%s: %s" % (s, t) for s, t in out["messages"])
    return out


def _parse_args(message, ob):
    # "false when calling ob(a=1, b=2) (which returns False)"
    try:
        i = message.index("ob(")
        depth = 0
        for j in range(i + 2, len(message)):
            if message[j] == "(":
                depth += 1
            elif message[j] == ")":
                depth -= 1
                if depth == 0:
                    break
        call = message[i:j + 1]
        names = list(ob["free"])

        def _f(*a, **k):
            d = dict(zip(names, a))
            d.update(k)
            return d
        d = eval(call, {"ob": _f, "__builtins__": {"True": True, "False": False}})
        full = dict(ob["fixed"])
        full.update({k: int(v) for k, v in d.items()})
        return full
    except Exception:
        return None


def _init_worker():
    # keep worker processes quiet and deterministic
    import logging
    logging.disable(logging.CRITICAL)
    os.environ.setdefault("PYTHONHASHSEED", "0")


def run_obligations(prop, obligations, jobs=None, progress=None, budget_s=None):
    """Solve obligations in a process pool; returns list of result dicts (same order)."""
    jobs = jobs or min(16, os.cpu_count() or 4)
    if not obligations:
        return []
    os.environ["PYTHONHASHSEED"] = "0"      # workers inherit: set iteration order is then fixed across processes and runs
    ctx = mp.get_context("spawn")
    results = [None] * len(obligations)
    t0 = time.time()
    with ctx.Pool(min(jobs, len(obligations)), initializer=_init_worker, maxtasksperchild=8) as pool:
        pending = {}
        for i, ob in enumerate(obligations):
            pending[i] = pool.apply_async(solve, ((prop, ob),))
        while pending:
            done = [i for i, r in pending.items() if r.ready()]
            for i in done:
                try:
                    results[i] = pending[i].get()
                except BaseException as e:  # noqa
                    results[i] = {"ob": obligations[i], "status": "error", "error": repr(e)}
                del pending[i]
                if progress:
                    progress(i, results[i])
            if budget_s is not None and time.time() - t0 > budget_s:
                for i in list(pending):
                    results[i] = {"ob": obligations[i], "status": "unknown", "why": "wall budget exhausted",
                                  "paths": 0}
                    del pending[i]
                pool.terminate()
                break
            time.sleep(0.05)
    return results


def concrete_run(prop, fn, args):
    """Plain CPython execution of a harness with concrete arguments (stage-1 replay)."""
    mod, name = fn.split(":")
    h = getattr(importlib.import_module(mod), name)
    rt.ACCT.reset()
    ok = rt.run(prop, h, dict(args), "concrete")
    return ok, rt.ACCT.failure, rt.trace(), dict(rt.ACCT.known_hits)
