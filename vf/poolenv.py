"""Observation-driven environment for the real Pool.run (C07, C08).

The pool is single-threaded and can observe its workers only through enqueue(), is_alive(),
multiprocessing.connection.wait() and Connection.recv().  Each fake persistent worker has an inbox
(inputs accepted, not yet processed), a result pipe (FIFO of messages, then EOF) and an alive flag.
The world only moves when the pool looks at it, and how it moves is decided by the symbolic schedule:

* at enqueue(w, x): w may turn out to have died already (death budget permitting) after answering a
  symbolic number j <= |inbox| of its queued inputs; a dead worker refuses (WorkerClosedError);
* at connection.wait(conns): one of the possible next events is picked: a pipe with unread data
  (or EOF) is reported ready / an alive worker processes its next input (its pipe becomes ready) /
  an alive worker dies after answering j of its queued inputs (external kill: bare EOF follows;
  poison input or worker-specific failure: an end marker, then EOF);
* results, end marker and EOF of one worker are read in that order; anything else is free.

If no event is possible the pool would block forever: Hang.  wait([]) three times in a row is a spin.
"""
from types import SimpleNamespace

from pyworkers.persistent import WorkerClosedError

from . import vos


def target(x, tag=0):
    return ("r", x, tag)


class Conn:
    def __init__(self, env, w):
        self.env = env
        self.w = w
        self.q = []
        self.closed = False
        self.eof_seen = False
        self.truncated = False      # the writer was killed part-way through a frame

    def recv(self):
        vos.check_sticky()
        if self.closed:
            raise OSError("handle is closed")
        if self.q:
            return self.q.pop(0)
        if not self.w.alive:
            if self.truncated:
                self.truncated = False
                raise OSError("got end of file during message")
            self.eof_seen = True
            raise EOFError()
        vos.hang("conn.recv", "pool reads a pipe that was not ready")

    def close(self):
        self.closed = True

    def fileno(self):
        return 100 + self.w.idx


class FakePW:
    """Fake persistent worker (what Pool.run sees of one)."""

    def __init__(self, env, idx, failing=False):
        self.env = env
        self.idx = idx
        self.id = ("host", 1000 + idx, 1000 + idx)
        self.alive = True
        self.inbox = []
        self.conn = Conn(env, self)
        self.counter = 0
        self.failing = failing          # worker-specific failure: dies on the first input it processes
        self.accepted = []              # every input ever accepted by enqueue
        self.answered = []
        self.enqueue_after_death = 0
        self.lingering = None           # number of is_alive() calls that still answer True although the worker is going down

    def __repr__(self):
        return "FakePW(%d)" % self.idx

    def restart(self, *args, results_pipe=None, timeout=None, **kwargs):
        """What PersistentWorker.restart does as far as the pool can see: the old incarnation is stopped (whatever it still held is
        lost), a new one with a new identity and a new result pipe takes its place."""
        vos.check_sticky()
        if self.alive:
            self._dead(marker=False)
        self.generation = getattr(self, "generation", 0) + 1
        self.id = ("host", 1000 + self.idx + 100 * self.generation, 1000 + self.idx + 100 * self.generation)
        self.alive = True
        self.failing = False
        self.lingering = None
        self.inbox = []
        self.counter = 0
        self.conn = results_pipe.parent_end if results_pipe is not None else Conn(self.env, self)
        self.conn.w = self

    # -- what the pool calls
    def is_alive(self):
        vos.check_sticky()
        if self.lingering is not None and self.alive:
            if self.lingering <= 0:
                self.lingering = None
                self._dead(marker=False)
                return False
            self.lingering -= 1
            return True
        return self.alive

    def enqueue(self, *inp):
        vos.check_sticky()
        env = self.env
        env.pool_calls += 1
        if self.alive and self.lingering is not None:
            raise OSError("handle is closed")          # its input pipe is already closed, the process is not gone yet
        if self.alive and env.glitches_left > 0:
            g = env.sched.pick(3)
            if g == 1:
                # transient failure of this one enqueue on a healthy worker
                env.glitches_left -= 1
                raise OSError("transient enqueue failure")
            if g == 2 and env.deaths_left > 0:
                # the worker has begun to die (input pipe closed) but is_alive() still says True for a while
                env.glitches_left -= 1
                env.deaths_left -= 1
                self.lingering = env.sched.pick(3)
                raise OSError("handle is closed")
        if self.alive and env.deaths_left > 0 and env.allow_death_at_enqueue:
            if env.sched.pick(2) == 1:
                self.die(marker=False)
        if not self.alive:
            env.refused.append((self.idx, inp))
            raise WorkerClosedError(self)
        self.inbox.append(inp)
        self.accepted.append(inp)

    # -- world steps
    def process_one(self):
        inp = self.inbox.pop(0)
        if self.failing or (self.env.poison is not None and inp[0] == self.env.poison):
            self.env.lost.append((self.idx, inp))
            self._dead(marker=True)
            return
        self.counter += 1
        self.answered.append(inp)
        self.conn.q.append((self.counter, True, target(*inp), self.id))

    def die(self, marker):
        """answer j <= |inbox| queued inputs, then stop"""
        env = self.env
        env.deaths_left -= 1
        j = env.sched.pick(len(self.inbox) + 1)
        for _ in range(j):
            if not self.alive:
                return
            self.process_one()
        if self.alive:
            self._dead(marker)

    def _dead(self, marker):
        self.alive = False
        for inp in self.inbox:
            self.env.lost.append((self.idx, inp))
        self.inbox = []
        if marker:
            self.conn.q.append((self.counter, False, None, self.id))
        elif self.env.allow_truncated and self.env.sched.pick(2) == 1:
            self.conn.truncated = True
        self.env.events.append(("dead", self.idx, marker))


class Env:
    def __init__(self, sched, W, deaths, poison=None, failing=(), allow_death_at_enqueue=True, double_ready=False, glitches=0):
        self.sched = sched
        self.workers = [FakePW(self, i, failing=(i in failing)) for i in range(W)]
        self.deaths_left = deaths
        self.poison = poison
        self.allow_death_at_enqueue = allow_death_at_enqueue
        self.double_ready = double_ready
        self.allow_truncated = True
        self.glitches_left = glitches
        self.lost = []          # inputs handed to a worker that died before answering them
        self.refused = []       # inputs that were being handed to a dead worker
        self.events = []
        self.empty_waits = 0
        self.pool_calls = 0
        self.waits = 0

    def make_pipe(self):
        """Stands for pyworkers.utils.Pipe() in Pool.restart_workers: the parent end is one of our result pipes."""
        return SimpleNamespace(parent_end=Conn(self, None), child_end=None)

    def by_conn(self, c):
        for w in self.workers:
            if w.conn is c:
                return w
        return None

    def wait(self, conns, timeout=None):
        vos.check_sticky()
        conns = list(conns)
        self.waits += 1
        if not conns:
            self.empty_waits += 1
            if self.empty_waits >= 3:
                vos.hang("connection.wait", "spin: wait([]) returned [] three times in a row")
            return []
        self.empty_waits = 0
        opts = []
        for c in conns:
            w = self.by_conn(c)
            if w is None or c.closed:
                continue
            if c.q or (not w.alive and not c.eof_seen):
                opts.append(("ready", w))
        for c in conns:
            w = self.by_conn(c)
            if w is None or c.closed or not w.alive:
                continue
            if w.lingering is not None:
                opts.append(("lingering-dies", w))
                continue
            if w.inbox:
                opts.append(("work", w))
            if self.deaths_left > 0:
                opts.append(("die", w))
        if not opts:
            vos.hang("connection.wait", "no worker can ever become ready: the pool blocks forever")
        kind, w = opts[self.sched.pick(len(opts))]
        if kind == "work":
            w.process_one()
        elif kind == "die":
            w.die(marker=False)
        elif kind == "lingering-dies":
            w.lingering = None
            w._dead(marker=False)
        ready = [w.conn]
        if self.double_ready:
            others = [c for c in conns if c is not w.conn and not c.closed and (c.q or (not self.by_conn(c).alive and not c.eof_seen))]
            if others and self.sched.pick(2) == 1:
                ready.append(others[0])
        return ready


def install(poolmod, env):
    poolmod.mp = SimpleNamespace(connection=SimpleNamespace(wait=env.wait))
    poolmod.time = SimpleNamespace(sleep=lambda s: None)
    poolmod.Pipe = env.make_pipe
