"""Harness library for the worker properties: builds a simulation (kernel + virtual OS +
instrumented child-side code + optional in-simulation RemoteServer) and provides landing points."""
import pickle

from . import sim as simmod, simos, inject, vos
from .vos import Hang, Killed

import pyworkers.worker as workermod
from pyworkers.worker import Worker, WorkerTerminatedError
from pyworkers.thread import ThreadWorker
from pyworkers.process import ProcessWorker
from pyworkers.remote import RemoteWorker
from pyworkers.persistent import PersistentWorker
from pyworkers.persistent_thread import PersistentThreadWorker
from pyworkers.persistent_process import PersistentProcessWorker
from pyworkers.persistent_remote import PersistentRemoteWorker
from pyworkers.remote_server import RemoteServer

KINDS = [ThreadWorker, ProcessWorker, RemoteWorker, PersistentThreadWorker, PersistentProcessWorker, PersistentRemoteWorker]
KIND_NAMES = ["thread", "process", "remote", "pthread", "pprocess", "premote"]
SERVER_ADDR = ("127.0.0.1", 60006)

INSTRUMENT = [
    (Worker, ["run", "do_work"]),
    (ThreadWorker, ["_run", "_cleanup", "_init_child"]),
    (ProcessWorker, ["_run", "_ctrl_fn", "_cleanup", "_init_child"]),
    (RemoteWorker, ["_run_backend", "_ctrl_fn_local", "_cleanup", "_init_child", "_fetch_results"]),
    (PersistentWorker, ["_init_child"]),
    (PersistentThreadWorker, ["do_work", "_send_result", "_cleanup"]),
    (PersistentProcessWorker, ["do_work", "_send_result", "_cleanup", "_init_child"]),
    (PersistentRemoteWorker, ["do_work", "_send_result", "_cleanup", "_fetch_results", "_release_self"]),
]

# parent-side API methods whose statements become points when a harness wants the *caller* to be slow between two statements
PARENT_INSTRUMENT = [
    (ThreadWorker, ["terminate", "wait", "_start"]),
    (ProcessWorker, ["terminate", "wait", "_start"]),
    (RemoteWorker, ["terminate", "wait", "_start"]),
    (PersistentThreadWorker, ["terminate", "wait", "close", "_start"]),
    (PersistentProcessWorker, ["terminate", "wait", "close", "_start"]),
    (PersistentRemoteWorker, ["terminate", "wait", "close", "_start"]),
]

_LABELS = {}

# class-level containers of the worker classes as they are at import time: anything else (e.g. a cache added to a
# class) is emptied before every path, because CrossHair needs identical re-execution and paths must not feed each other
_CLASS_STATE = {}


def _snapshot_class_state():
    for cls in KINDS + [Worker, PersistentWorker]:
        for k, v in vars(cls).items():
            if isinstance(v, (dict, list, set)):
                _CLASS_STATE[(cls, k)] = True


def reset_class_state():
    for cls in KINDS + [Worker, PersistentWorker]:
        for k, v in list(vars(cls).items()):
            if isinstance(v, (dict, list, set)):
                v.clear()


def is_thread_kind(kind):
    return kind in (0, 3)


def is_remote_kind(kind):
    return kind in (2, 5)


def is_persistent(kind):
    return kind >= 3


class World:
    def __init__(self, server=False, server_kwargs=None, parent_points=False):
        self.server_kwargs = dict(server_kwargs or {})
        self.parent_points = parent_points
        self.sim = simmod.new_sim()
        simos.install(self.sim)
        global _LABELS
        _LABELS = inject.instrument_all(INSTRUMENT)
        if self.parent_points:
            inject.instrument_all(PARENT_INSTRUMENT)
        reset_class_state()
        self.server = None
        self.server_actor = None
        if server:
            self.start_server()

    def start_server(self):
        s = self.sim
        self.server = RemoteServer(SERVER_ADDR, **self.server_kwargs)
        self.server_pid = s.new_pid()

        def server_main():
            self.server.run()
        self.server_actor = s.spawn(server_main, "server", pid=self.server_pid, kind="server")
        s.yield_()

    def make(self, kind, target, args=None, kwargs=None, **kw):
        cls = KINDS[kind]
        if is_remote_kind(kind):
            kw.setdefault("host", SERVER_ADDR)
        return cls(target, args=args, kwargs=kwargs, **kw)

    def close(self):
        errs = self.sim.shutdown()
        simmod.CUR[0] = None
        return errs


class Landing:
    """Parks (or kills) the worker's child actor at its k-th injection point.

    action 'hold': the actor stops there until an asynchronous exception is pending for it, it is
    released, or nothing else in the system can run; action 'kill': the process dies there (SIGKILL).
    """

    def __init__(self, world, kind, k, action="hold", select=None, delay=3.0):
        self.select = select
        self.delay = delay
        self.w = world
        self.sim = world.sim
        self.kind = kind
        self.k = k
        self.action = action
        self.actor = None
        self.count = 0
        self.landed = False
        self.label = None
        self.released = False
        self.released_by_deadlock = False   # the hold had to be lifted because nothing else could run (e.g. parent still in the constructor)
        self.stalled = False                # the child blocked for good before reaching point k (e.g. persistent worker waiting for input)
        self.labels = []
        self.sim.point_hook = self.hook
        self.sim.idle_hooks.append(self.on_idle)
        self.sim.deadlock_hooks.append(self.on_deadlock)

    def _select(self, a):
        if self.select is not None:
            return self.select(a)
        if is_thread_kind(self.kind):
            return a.kind == "thread" and a.pid == self.sim.main.pid
        return a.kind == "process-main"

    def hook(self, a, label, async_ok=True):
        if not async_ok and self.action != "kill":
            return
        if self.actor is None:
            if not self._select(a):
                return
            self.actor = a
        if a is not self.actor or self.landed:
            return
        self.labels.append(label)
        i = self.count
        self.count += 1
        if i != self.k:
            return
        self.landed = True
        self.label = label
        self.clock = self.sim.clock
        if self.action == "kill":
            proc = self.sim.procs.get(a.pid)
            if proc is not None:
                proc._die(-9)
            else:
                simos.kill_plain_pid(self.sim, a.pid)
            raise Killed()
        if self.action == "delay":
            self.sim.sleep(self.delay)      # a slow actor: e.g. a forwarding thread busy rebuilding a large result
            return
        if self.action == "hold":
            a.hold = True
            try:
                self.sim.block(lambda: self.released or a.pending_exc is not None, None, what="landing-hold")
            finally:
                a.hold = False

    def on_idle(self):
        """Nobody else can run right now: the parked child goes on (it is not frozen, merely slower than the rest)."""
        if self.landed and not self.released and self.actor is not None and self.actor.state == "blocked" and self.actor.what == "landing-hold":
            self.released = True
            self.released_by_deadlock = True
            return True
        return False

    def on_deadlock(self):
        m = self.sim.main
        if not self.landed and not self.stalled and m.state == "blocked" and m.what == "wait-landing":
            self.stalled = True
            return True
        return False

    def target_done(self):
        a = self.actor
        if a is None:
            return False
        return a.state in ("done", "zombie")

    def wait(self):
        """Parent side: wait until the child has reached the landing point (or ended before it)."""
        self.sim.block(lambda: self.landed or self.target_done() or self.stalled, None, what="wait-landing")
        if not self.landed:
            self.k = -1         # the child never got that far: the landing point is not armed any more
        return self.landed

    def release(self):
        self.released = True


class ParentDelay:
    """The calling (main) actor is slow at its k-th statement inside one of the parent-side API methods named by ``part`` (e.g.
    '.terminate:'): it sleeps ``delay`` model seconds there, so every other actor gets to run in between.  Needs
    World(parent_points=True).  Chains with a Landing installed before it."""

    def __init__(self, world, part, k, delay=2.0):
        self.sim = world.sim
        self.part = part
        self.k = k
        self.delay = delay
        self.count = 0
        self.fired = False
        self.label = None
        self.prev = self.sim.point_hook
        self.sim.point_hook = self.hook

    def hook(self, a, label, async_ok=True):
        if self.prev is not None:
            self.prev(a, label, async_ok)
        if a is not self.sim.main or not async_ok or self.fired or self.part not in label:
            return
        i = self.count
        self.count += 1
        if i == self.k:
            self.fired = True
            self.label = label
            self.sim.sleep(self.delay)


def frontend_actor(a):
    return a.kind == "thread" and "(remote front)" in (a.name or "")


def observe(w):
    """Reads the four accessors; returns (tuple, raised) without letting anything escape."""
    out = []
    for name in ("is_alive", "has_error", "result", "error"):
        try:
            v = getattr(w, name)
            if name == "is_alive":
                v = v()
            out.append(v)
        except (Hang, Killed):
            raise
        except Exception as e:  # noqa
            return None, "%s-raises-%s" % (name, type(e).__name__)
    return tuple(out), None


def exc_same(a, b):
    return type(a) is type(b) and getattr(a, "args", None) == getattr(b, "args", None)


def obs_same(o1, o2):
    if o1 is None or o2 is None:
        return o1 is o2
    for a, b in zip(o1, o2):
        if isinstance(a, BaseException) or isinstance(b, BaseException):
            if not (isinstance(a, BaseException) and isinstance(b, BaseException) and exc_same(a, b)):
                return False
        elif a != b or type(a) is not type(b):
            return False
    return True
