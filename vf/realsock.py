"""Real-OS replays over loopback TCP for byte-stream counterexamples (C10, C11, C20)."""
import socket
import struct
import threading
import time


def _pair():
    srv = socket.socket(socket.AF_INET, socket.SOCK_STREAM)
    srv.bind(("127.0.0.1", 0))
    srv.listen(1)
    cli = socket.socket(socket.AF_INET, socket.SOCK_STREAM)
    cli.connect(srv.getsockname())
    conn, _ = srv.accept()
    srv.close()
    cli.setsockopt(socket.IPPROTO_TCP, socket.TCP_NODELAY, 1)
    return cli, conn


class SegmentingReader:
    """Wraps the reader's real socket: before every recv the writer side sends exactly the next
    segment (so the kernel can only return that many bytes), and ends the stream (FIN or RST)
    when the script is exhausted."""

    def __init__(self, data, cuts, rst):
        self.cli, self.conn = _pair()
        self.data = data
        self.pos = 0
        self.cuts = list(cuts)
        self.rst = rst
        self.ended = False
        self.calls = 0

    def recv(self, n, *a):
        self.calls += 1
        avail = len(self.data) - self.pos
        if avail > 0 and n > 0:
            m = min(n, avail)
            k = self.cuts.pop(0) if self.cuts else 0
            if k >= m or k > 3:
                k = 0
            take = m if k == 0 else k
            self.cli.sendall(self.data[self.pos:self.pos + take])
            self.pos += take
            time.sleep(0.005)
        elif not self.ended:
            self.ended = True
            if self.rst:
                self.cli.setsockopt(socket.SOL_SOCKET, socket.SO_LINGER, struct.pack("ii", 1, 0))
            self.cli.close()
            time.sleep(0.02)
        return self.conn.recv(n)

    def close(self):
        for s in (self.cli, self.conn):
            try:
                s.close()
            except OSError:
                pass


def replay_frame(msgs, t, rst, cuts, signature):
    """Replays a C10 Tier-A counterexample against real sockets.  Returns (reproduced, text)."""
    from pyworkers.remote import recv_msg, ConnectionClosedError
    from .props.c10 import _stream, _bounds
    stream = _stream(msgs)
    bounds = _bounds(stream)
    rd = SegmentingReader(stream[:t], cuts, rst)
    outcome = []

    def run():
        try:
            for j, m in enumerate(msgs):
                complete = t >= bounds[j + 1]
                try:
                    got = recv_msg(rd)
                except ConnectionClosedError:
                    outcome.append("closed-error-on-complete-message" if complete else "ok")
                    return
                except Exception as e:  # noqa
                    outcome.append("%s-on-complete-message" % type(e).__name__ if complete else "%s-instead-of-ConnectionClosedError" % type(e).__name__)
                    return
                if not complete:
                    outcome.append("returned-message-from-truncated-stream")
                    return
                if got != m:
                    outcome.append("wrong-message")
                    return
                if rd.pos != bounds[j + 1]:
                    # the reader pulled bytes of the following message out of the kernel (every byte it asked for was handed over in
                    # lock-step, so rd.pos is exactly what it has consumed)
                    outcome.append("stream-position-off")
                    return
            outcome.append("ok")
        finally:
            pass

    th = threading.Thread(target=run, daemon=True)
    th.start()
    th.join(3.0)
    if th.is_alive():
        calls = rd.calls
        rd.close()          # makes the spinning recv raise so that the thread ends
        th.join(2.0)
        return ("no-progress" in signature), "real recv_msg still running after 3 s (%d recv calls): no progress on the truncated stream" % calls
    rd.close()
    res = outcome[0] if outcome else "no outcome"
    want = signature.split(".")[-1]
    return (res == want), "real sockets: %s" % res
