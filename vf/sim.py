"""Deterministic simulation kernel: every pyworkers actor (parent thread, child thread / process main
thread, control threads, frontend threads, server loop) runs its *real* code on its own OS thread,
but exactly one of them runs at any time (baton passing).  Control changes hands only inside stub
calls of the virtual OS (blocking calls, injection points), so an execution is fully determined
by the harness' (solver-chosen) parameters.

Scheduling policy: the running actor keeps running until it blocks or finishes; then the runnable
actor with the lowest priority number / lowest creation index runs.  If every actor is blocked,
model time advances to the earliest deadline (that call times out).  If nobody is runnable and no
deadline is pending, the system is deadlocked: the main (harness) actor gets ``vos.Hang``.

Asynchronous exceptions (PyThreadState_SetAsyncExc) are recorded as *pending* on the target actor and
raised at its next injection point or when its current blocking stub call returns — never while it
is blocked, as in CPython.
"""
import threading as _real_threading
import time as _real_time

from . import vos
from .vos import Hang, Killed


class SimError(Exception):
    """Kernel or harness bug (never a property violation)."""


HANDOFF_TIMEOUT = 30.0


class Actor:
    def __init__(self, sim, name, pid, tid, fn, kind="thread"):
        self.sim = sim
        self.name = name
        self.pid = pid
        self.tid = tid
        self.ident = 70000 + tid
        self.fn = fn
        self.kind = kind
        self.state = "new"          # new / runnable / blocked / done / zombie
        self.cond = None
        self.deadline = None
        self.timed_out = False
        self.what = ""
        self.pending_exc = None
        self.killed = False
        self.frozen = False         # never scheduled (e.g. interpreter lock held elsewhere)
        self.hold = False           # parked at a landing point: runs only when nothing else can
        self.priority = 0
        self.os_thread = None
        self.baton = _real_threading.Semaphore(0)
        self.exc = None
        self.points = 0
        self.on_exit = []
        self.index = len(sim.actors)
        self.deadlocked = False
        self.daemon = False
        self.pending_signal = None

    def __repr__(self):
        return "<Actor %s pid=%d tid=%d %s>" % (self.name, self.pid, self.tid, self.state)


class Sim:
    def __init__(self):
        self.actors = []
        self.clock = 0.0
        self.next_pid = 101
        self.next_tid = 1
        self.main = Actor(self, "main", 100, self._tid(), None, kind="main")
        self.main.state = "runnable"
        self.main.os_thread = _real_threading.current_thread()
        self.actors.append(self.main)
        self.current = self.main
        self.shutting_down = False
        self.deadlock = None
        self.trace = []
        self.point_hook = None          # callable(actor, label) -> None, may raise / kill
        self.lock = _real_threading.Lock()
        self.procs = {}                 # pid -> FakeProcess-like object with .exited
        self.signal_handlers = {}       # (pid, signum) -> handler
        self.self_sigterm = False
        self.errors = []
        self.deadlock_hooks = []        # callables() -> bool (True if they unblocked something)
        self.idle_hooks = []            # called when nobody is runnable, before model time advances

    def _tid(self):
        t = self.next_tid
        self.next_tid += 1
        return t

    def new_pid(self):
        p = self.next_pid
        self.next_pid += 1
        return p

    # ---- actor creation ---------------------------------------------------------------------
    def spawn(self, fn, name, pid=None, kind="thread"):
        a = Actor(self, name, self.current.pid if pid is None else pid, self._tid(), fn, kind)
        a.state = "runnable"
        self.actors.append(a)
        return a

    def _thread_main(self, a):
        a.baton.acquire()
        try:
            if a.killed or self.shutting_down:
                raise Killed()
            a.fn()
        except Killed:
            pass
        except Hang:
            pass
        except BaseException as e:  # noqa
            a.exc = e
        finally:
            self._finish(a)

    def _finish(self, a):
        a.state = "done"
        if self.shutting_down:
            return
        if not a.killed:
            for h in a.on_exit:
                try:
                    h(a)
                except BaseException as e:  # noqa
                    self.errors.append("on_exit hook raised %r" % (e,))
        if self.current is a:
            self.current = None
            self._pick_and_wake(None)

    # ---- scheduling --------------------------------------------------------------------------
    def _runnable(self):
        for a in self.actors:
            if a.state == "blocked" and a.cond is not None:
                try:
                    ok = a.cond()
                except BaseException as e:  # noqa
                    ok = True
                    self.errors.append("block condition raised %r" % (e,))
                if ok:
                    a.state = "runnable"
                    a.timed_out = False
        c = [a for a in self.actors if a.state in ("runnable", "new") and not a.frozen]
        c.sort(key=lambda a: (1 if a.hold else 0, a.priority, a.index))
        return c

    def _advance_clock(self):
        best = None
        for a in self.actors:
            if a.state == "blocked" and a.deadline is not None and not a.frozen:
                if best is None or a.deadline < best.deadline:
                    best = a
        if best is None:
            return False
        if best.deadline > self.clock:
            self.clock = best.deadline
        best.state = "runnable"
        best.timed_out = True
        return True

    def _pick_and_wake(self, cur):
        """Choose the next actor to run.  If it is ``cur`` return; otherwise wake it (and, when cur is
        not None, put cur's OS thread to sleep until somebody hands the baton back)."""
        while True:
            c = self._runnable()
            if c:
                nxt = c[0]
                break
            if any(h() for h in self.idle_hooks):
                continue            # e.g. an actor parked at a landing point goes on before model time advances
            if self._advance_clock():
                continue
            if any(h() for h in self.deadlock_hooks):
                continue
            # deadlock: nobody can ever run again
            self.deadlock = [(a.name, a.what) for a in self.actors if a.state == "blocked"]
            nxt = self.main
            if self.main.state == "done":
                return
            self.main.state = "runnable"
            self.main.deadlocked = True
            break
        if nxt is cur:
            return
        self.current = nxt
        self._wake(nxt)
        if cur is not None:
            self._sleep(cur)

    def _wake(self, a):
        if a.os_thread is None:
            a.os_thread = _real_threading.Thread(target=self._thread_main, args=(a,), name="sim-" + a.name, daemon=True)
            a.os_thread.start()
        if a.state == "new":
            a.state = "runnable"
        a.baton.release()

    def _sleep(self, a):
        if not a.baton.acquire(timeout=HANDOFF_TIMEOUT):
            self.errors.append("baton hand-off timed out for %r" % (a,))
            raise SimError("baton hand-off timed out for %r (kernel deadlock)" % (a,))

    def _after_wake(self, a):
        """Runs on a's OS thread right after it got the baton back."""
        if a.killed or (self.shutting_down and a is not self.main):
            raise Killed()
        if getattr(a, "deadlocked", False):
            a.deadlocked = False
            vos.hang("deadlock", "every actor is blocked forever: %r" % (self.deadlock,))
        if vos.STATE.hang is not None and a is self.main:
            raise Hang("%s: %s" % vos.STATE.hang)

    # ---- API for stubs ------------------------------------------------------------------------
    def me(self):
        """The actor whose OS thread is executing (robust during shutdown, when several unwind at once)."""
        t = _real_threading.current_thread()
        if t is self.main.os_thread:
            return self.main
        for a in self.actors:
            if a.os_thread is t:
                return a
        raise SimError("stub called from a thread that is not an actor")

    def check_alive(self):
        a = self.me()
        if a.killed or (self.shutting_down and a is not self.main):
            raise Killed()
        if a is not self.current:
            raise SimError("actor %r runs without holding the baton" % (a,))
        if a is self.main:
            vos.check_sticky()
        return a

    def block(self, cond, timeout=None, what=""):
        """Block the current actor until cond() holds (True) or ``timeout`` model seconds passed (False).

        A Python-level signal handler pending for this actor interrupts the wait, runs, and the wait is
        resumed (PEP 475); an asynchronous exception is only raised once the call returns."""
        a = self.check_alive()
        deadline = None if timeout is None else self.clock + max(0.0, float(timeout))
        while True:
            if a.pending_signal is not None:
                self._run_signal(a)
            if cond():
                self._deliver_async(a)
                return True
            a.cond = lambda: cond() or a.pending_signal is not None
            a.what = what
            a.deadline = deadline
            a.state = "blocked"
            a.timed_out = False
            self._pick_and_wake(a)
            self._after_wake(a)
            a.state = "runnable"
            a.cond = None
            a.deadline = None
            timed_out = a.timed_out
            a.timed_out = False
            if a.pending_signal is not None:
                self._run_signal(a)
                if not timed_out:
                    continue
            res = cond()
            self._deliver_async(a)
            return bool(res)

    def _run_signal(self, a):
        signum, handler = a.pending_signal
        a.pending_signal = None
        self.trace.append(("signal-handler", a.name, signum))
        handler(signum, None)

    def yield_(self):
        """Let every other runnable actor run until it blocks, then continue."""
        self.block(lambda: False, timeout=0, what="yield")

    def sleep(self, t):
        self.block(lambda: False, timeout=t, what="sleep")

    def _deliver_async(self, a):
        if a.pending_exc is not None:
            e = a.pending_exc
            a.pending_exc = None
            self.trace.append(("async-delivered", a.name, getattr(e, "__name__", str(e))))
            raise e()

    def point(self, label, async_ok=True):
        """Injection point: executed before every statement of instrumented code.

        async_ok=False marks a point inside a C-level call (e.g. half-way through a pipe write): a process
        can be killed there, but no asynchronous Python exception can be raised there."""
        a = self.check_alive()
        a.points += 1
        if a.pending_signal is not None and async_ok:
            self._run_signal(a)
        if self.point_hook is not None:
            self.point_hook(a, label, async_ok)
        if async_ok:
            self._deliver_async(a)

    def set_async_exc(self, ident, exc):
        cur = self.check_alive()
        for a in self.actors:
            if a.ident == ident and a.pid == cur.pid and a.state not in ("done", "zombie"):
                a.pending_exc = exc
                a.hold = False
                self.trace.append(("async-set", a.name, getattr(exc, "__name__", str(exc))))
                return 1
        return 0

    def kill_pid(self, pid):
        """SIGKILL semantics: every actor of the process stops having any effect, now."""
        for a in self.actors:
            if a.pid == pid and a.state != "done":
                a.killed = True
                if a is self.current:
                    continue
                a.state = "zombie"

    def actors_of(self, pid):
        return [a for a in self.actors if a.pid == pid]

    # ---- end of path ----------------------------------------------------------------------------
    def shutdown(self):
        """Unwind and join every actor thread (called by the harness on the main thread)."""
        self.shutting_down = True
        for a in self.actors:
            if a is self.main or a.os_thread is None:
                continue
            if a.state == "done" and not a.os_thread.is_alive():
                continue
            a.killed = True
            a.baton.release()
        for a in self.actors:
            if a is self.main or a.os_thread is None:
                continue
            a.os_thread.join(HANDOFF_TIMEOUT)
            if a.os_thread.is_alive():
                self.errors.append("actor thread %s did not unwind" % a.name)
        return self.errors


CUR = [None]


def cur():
    s = CUR[0]
    if s is None:
        raise SimError("no simulation active")
    return s


def new_sim():
    vos.reset()
    s = Sim()
    CUR[0] = s
    return s
